package dbh

import (
	"bytes"
	"encoding/json"
	"fmt"
	"hash/fnv"
	"io"
	"os"
	"strings"
	"time"

	"github.com/syndtr/goleveldb/leveldb"
	"github.com/syndtr/goleveldb/leveldb/opt"
	"github.com/syndtr/goleveldb/leveldb/storage"
	"github.com/syndtr/goleveldb/leveldb/table"
	"github.com/syndtr/goleveldb/leveldb/util"
	"verifharness/lib/vlib"
	"verifharness/lib/vstor"
)

// Correspondence cases and oracles for tableCompactionBuilder (model Lsm/Builder.v, evaluated by Corr/C06Run.v):
//   KBuild  every observed table compaction: the failure-free model builder must write exactly the installed tables;
//   KRetry  tableCompactionBuilder.run driven attempt by attempt under injected faults (leveldb.VerifBuilderDrive):
//           snapshot fields after every failed attempt, tables/dropCnt/kerrCnt of the successful one;
//   twins   (P) the same scenario run twice, once with transient table faults armed before the range compactions:
//           identical table contents per level and identical DB contents after settling; and the builder driven twice on
//           one DB state, with and without faults: identical output tables and counters.

// sizeCmp orders nothing: the sizing writer is fed keys already in table order.
type sizeCmp struct{}

func (sizeCmp) Name() string                      { return "verif.size" }
func (sizeCmp) Compare(a, b []byte) int           { return -1 }
func (sizeCmp) Separator(dst, a, b []byte) []byte { return nil }
func (sizeCmp) Successor(dst, b []byte) []byte    { return nil }

type countWriter struct{ n int }

func (w *countWriter) Write(p []byte) (int, error) { w.n += len(p); return len(p), nil }

var _ io.Writer = (*countWriter)(nil)

// SizeSteps feeds an independent table.Writer (same block size, restart interval and compression as the DB) with the
// stream and returns the steps (n, BytesLen after n entries) at which BytesLen changes, up to the first n with
// BytesLen >= tableSize (BytesLen never decreases, so later values do not matter to needFlush).
func SizeSteps(o *opt.Options, stream []leveldb.VerifEntry, tableSize int) [][2]int {
	wo := &opt.Options{BlockSize: o.BlockSize, BlockRestartInterval: o.BlockRestartInterval, Compression: o.Compression, Comparer: sizeCmp{}}
	w := table.NewWriter(&countWriter{}, wo, nil, 0)
	var steps [][2]int
	last := 0
	for i, e := range stream {
		if err := w.Append(EncodeIKey(e.Ukey, e.Seq, e.Kind), e.Value); err != nil {
			break
		}
		if n := w.BytesLen(); n != last {
			steps = append(steps, [2]int{i + 1, n})
			last = n
			if n >= tableSize {
				break
			}
		}
	}
	return steps
}

// renderSizes: one KS per observed output table (the tables after it continue its stream).
func renderSizes(o *opt.Options, outs [][]leveldb.VerifEntry, tableSize int) string {
	var items []string
	for i := range outs {
		if len(outs[i]) == 0 {
			continue
		}
		var stream []leveldb.VerifEntry
		for _, t := range outs[i:] {
			stream = append(stream, t...)
		}
		var st []string
		for _, s := range SizeSteps(o, stream, tableSize) {
			st = append(st, fmt.Sprintf("(%d, %d)", s[0], s[1]))
		}
		f := outs[i][0]
		items = append(items, fmt.Sprintf("KS %s %d [%s]", vlib.CoqHex(f.Ukey), f.Seq, strings.Join(st, "; ")))
	}
	return "[" + strings.Join(items, "; ") + "]"
}

func coqEntryLists(outs [][]leveldb.VerifEntry) string {
	items := make([]string, len(outs))
	for i, es := range outs {
		items[i] = coqEntries(es)
	}
	return "[" + strings.Join(items, "; ") + "]"
}

func findTable(ver []leveldb.VerifTable, num int64) (leveldb.VerifTable, bool) {
	for _, t := range ver {
		if t.Num == num {
			return t, true
		}
	}
	return leveldb.VerifTable{}, false
}

// deeperLevels renders the levels from `from` on as list (list kmeta).
func deeperLevels(ver []leveldb.VerifTable, from int) (string, bool) {
	nl := numLevels(ver)
	var lv []string
	for l := from; l < nl; l++ {
		s, ok := KMetaList(levelOf(ver, l))
		if !ok {
			return "", false
		}
		lv = append(lv, s)
	}
	return "[" + strings.Join(lv, "; ") + "]", true
}

// MaxBuildEntries caps the input size of a rendered builder case.
const MaxBuildEntries = 420

// RenderKBuild renders an observed table compaction (commit hook edit + the pick it came from).
func (r *Runner) RenderKBuild(e leveldb.VerifEdit, p *leveldb.VerifPick) (string, []string, bool) {
	if !e.HasMinSeq || p == nil || e.SourceLevel != p.SourceLevel {
		return "", nil, false
	}
	var ins []string
	total := 0
	for _, n := range append(append([]int64{}, p.T0...), p.T1...) {
		es, ok := r.TableEntries[n]
		if !ok {
			return "", nil, false
		}
		total += len(es)
		ins = append(ins, coqTable(n, es))
	}
	if total == 0 || total > MaxBuildEntries {
		return "", nil, false
	}
	var outs [][]leveldb.VerifEntry
	for _, a := range e.Added {
		es, ok := r.TableEntries[a.Num]
		if !ok || len(es) == 0 {
			return "", nil, false
		}
		outs = append(outs, es)
	}
	var gp []leveldb.VerifTable
	for _, n := range p.GP {
		t, ok := findTable(p.Version, n)
		if !ok {
			return "", nil, false
		}
		gp = append(gp, t)
	}
	gps, ok1 := KMetaList(gp)
	deep, ok2 := deeperLevels(p.Version, p.SourceLevel+2)
	if !ok1 || !ok2 {
		return "", nil, false
	}
	tableSize := r.Opts.GetCompactionTableSize(p.SourceLevel + 1)
	strict := r.Opts.GetStrict(opt.StrictCompaction)
	c := fmt.Sprintf("KBuild %d %d %s %d %d [%s] %s %s %s %s", r.Prog.Cfg.CmpID, e.MinSeq, vlib.CoqBool(strict), tableSize, p.MaxGPOverlaps,
		strings.Join(ins, "; "), gps, deep, renderSizes(r.Opts, outs, tableSize), coqEntryLists(outs))
	tags := []string{"k_build"}
	if len(outs) > 1 {
		tags = append(tags, "k_build_several_outputs")
	}
	if len(outs) == 0 {
		tags = append(tags, "k_build_no_output")
	}
	if len(gp) > 0 {
		tags = append(tags, "k_build_with_grandparents")
	}
	kept := 0
	for _, o := range outs {
		kept += len(o)
	}
	if kept < total {
		tags = append(tags, "k_build_with_drops")
	}
	return c, tags, true
}

// RenderKRetry renders one driven builder (leveldb.VerifBuilderDrive).
func RenderKRetry(cmpID int, o *opt.Options, b *leveldb.VerifBuild) (string, []string, bool) {
	if b == nil || b.Panic != "" || !b.Done {
		return "", nil, false
	}
	var ins []string
	total := 0
	for i, t := range append(append([]leveldb.VerifTable{}, b.T0...), b.T1...) {
		total += len(b.InEntries[i])
		ins = append(ins, coqTable(t.Num, b.InEntries[i]))
	}
	if total == 0 || total > MaxBuildEntries {
		return "", nil, false
	}
	gps, ok1 := KMetaList(b.GP)
	deep, ok2 := deeperLevels(b.Version, b.SourceLevel+2)
	if !ok1 || !ok2 {
		return "", nil, false
	}
	var atts []string
	nfail := 0
	cursorsMoved := false // a failed attempt left base-level cursors beyond its snapshot's: restore has to rewind them
	for _, a := range b.Attempts {
		// the model keeps one cursor per level below the output level, the code one per level of the version
		atts = append(atts, fmt.Sprintf("KA %s %d %s %s %d %d %d %d %s %d [%s] %d %d %d [%s] %d %s %d [%s] [%s]", vlib.CoqBool(a.Err != ""), a.SnapIter,
			vlib.CoqBool(a.SnapHasLast), vlib.CoqHex(a.SnapLastUkey), a.SnapLastSeq, a.SnapKerr, a.SnapDrop, a.SnapGPI, vlib.CoqBool(a.SnapSeen),
			a.SnapGPBytes, coqInts(a.SnapTPtrs), a.NTables, a.Kerr, a.Drop,
			coqInts(a.TPtrs), a.RestGPI, vlib.CoqBool(a.RestSeen), a.RestGPBytes, coqInts(a.RestTPtrs), coqInts(a.RestSnapTPtrs)))
		if a.Err != "" {
			nfail++
			if !intsEq(a.TPtrs, a.SnapTPtrs) {
				cursorsMoved = true
			}
		}
	}
	c := fmt.Sprintf("KRetry %d %d %s %d %d [%s] %s %s %s [%s] %s", cmpID, b.MinSeq, vlib.CoqBool(b.Strict), b.TableSize, b.MaxGPOverlaps,
		strings.Join(ins, "; "), gps, deep, renderSizes(o, b.OutEntries, b.TableSize), strings.Join(atts, "; "), coqEntryLists(b.OutEntries))
	tags := []string{"k_retry", fmt.Sprintf("k_retry_failed_attempts_%d", minInt(nfail, 4))}
	resumed := false
	for _, a := range b.Attempts {
		if a.Err != "" && a.SnapIter > 0 {
			resumed = true
		}
	}
	if resumed {
		tags = append(tags, "k_retry_resumed_from_snapshot")
	}
	if len(b.GP) > 0 {
		tags = append(tags, "k_retry_with_grandparents")
	}
	if cursorsMoved {
		tags = append(tags, "k_retry_cursors_rewound_by_restore")
	}
	if len(b.OutEntries) > 1 {
		tags = append(tags, "k_retry_several_outputs")
	}
	return c, tags, true
}

func coqInts(xs []int) string {
	tp := make([]string, len(xs))
	for i, x := range xs {
		tp[i] = fmt.Sprintf("%d", x)
	}
	return strings.Join(tp, "; ")
}

func intsEq(a, b []int) bool {
	if len(a) != len(b) {
		return false
	}
	for i := range a {
		if a[i] != b[i] {
			return false
		}
	}
	return true
}

func minInt(a, b int) int {
	if a < b {
		return a
	}
	return b
}

// ---------------------------------------------------------------------------------------------------------------
// Twin scenarios

// TwinSpec identifies a scenario (everything else is derived from the seed).
type TwinSpec struct {
	TwinSeed uint64 `json:"twin_seed"`
	Rounds   int    `json:"rounds,omitempty"` // 0 = derived
}

// LoadTwinSpec reads a replay file written for a twin violation.
func LoadTwinSpec(path string) (*TwinSpec, bool) {
	b, err := os.ReadFile(path)
	if err != nil {
		return nil, false
	}
	var w struct {
		Case json.RawMessage `json:"case"`
	}
	if json.Unmarshal(b, &w) == nil && w.Case != nil {
		b = w.Case
	}
	var raw map[string]json.RawMessage
	if json.Unmarshal(b, &raw) != nil {
		return nil, false
	}
	if _, ok := raw["twin_seed"]; !ok {
		return nil, false
	}
	var s TwinSpec
	if json.Unmarshal(b, &s) != nil {
		return nil, false
	}
	return &s, true
}

// TwinState is what a scenario run ends with.
type TwinState struct {
	Levels    [][]string // per level, per table: digest of the entry list
	Scan      string     // digest of a full scan
	Failure   string     // oracle failure inside the run (wrong read, API error outside the faulted calls, hang)
	FaultHits int
	Stats     map[string]int
	Cases     []KCand // KRetry cases from the builder drives
}

func entriesDigest(es []leveldb.VerifEntry) string {
	h := fnv.New64a()
	var b [17]byte
	for _, e := range es {
		h.Write(e.Ukey)
		for i := 0; i < 8; i++ {
			b[i] = byte(e.Seq >> (8 * i))
			b[8+i] = byte(uint64(len(e.Value)) >> (8 * i))
		}
		b[16] = byte(e.Kind)
		h.Write(b[:])
		h.Write(e.Value)
	}
	return fmt.Sprintf("%d:%016x", len(es), h.Sum64())
}

var twinFaultKinds = []vstor.OpKind{vstor.OpCreate, vstor.OpWrite, vstor.OpWrite, vstor.OpSync, vstor.OpCloseW, vstor.OpOpen, vstor.OpRead, vstor.OpRead, vstor.OpRemove}

func armFaults(st *vstor.Stor, fr *vlib.RNG, n int) []*vstor.Fault {
	var fs []*vstor.Fault
	for i := 0; i < n; i++ {
		f := &vstor.Fault{Kind: twinFaultKinds[fr.Intn(len(twinFaultKinds))], Type: storage.TypeTable, K: fr.Pick(6, 4, 3, 2, 1) * fr.Range(1, 3)}
		if fr.Chance(1, 3) {
			f.K = fr.Intn(3)
		}
		st.AddFault(f)
		fs = append(fs, f)
	}
	return fs
}

func hitsOf(fs []*vstor.Fault) int {
	n := 0
	for _, f := range fs {
		n += f.Hits
	}
	return n
}

// twinCfg derives the option point of a scenario: tiny tables and blocks, no automatic flush (write buffer larger than a
// round), seek compactions off (their trigger depends on read timing), default strictness.
func twinCfg(r *vlib.RNG) Cfg {
	c := Cfg{
		WriteBuffer:     1 << 20,
		TableSize:       pickInt(r, 512, 1024, 1024, 2048, 4096),
		TotalSize:       pickInt(r, 2048, 4096, 8192, 16384),
		L0Trigger:       pickInt(r, 1, 2, 4),
		BlockSize:       pickInt(r, 64, 64, 128, 256, 1024),
		RestartInterval: pickInt(r, 1, 2, 16),
		Snappy:          r.Bool(),
		FilterBits:      pickInt(r, 0, 0, 10),
		BlockCache:      pickInt(r, -1, 0, 4096),
		NoBufferPool:    r.Chance(1, 3),
		DisableSeeks:    true,
		CmpID:           pickInt(r, 0, 0, 1, 2, 3),
	}
	return c
}

// RunTwin runs the scenario of spec once; faulty arms transient table faults before the range compactions and drives
// the builder under faults at the end.  hooks may be nil (no case collection).
func RunTwin(spec TwinSpec, faulty bool, col *PickCol, collect bool) (st TwinState) {
	st.Stats = map[string]int{}
	root := vlib.NewRNG(spec.TwinSeed)
	r := root.Fork()  // scenario (identical in both twins)
	fr := root.Fork() // faults
	kr := root.Fork() // case collection
	cfg := twinCfg(r)
	pool := GenPool(r, r.Range(20, 120), false)
	p := &Program{Cfg: cfg, Seed: spec.TwinSeed}
	for _, k := range pool {
		p.Pool = append(p.Pool, HexBytes(k))
	}
	rn, _ := NewRunner(p, false)
	if cfg.TotalSize <= 4096 {
		rn.Opts.CompactionTotalSizeMultiplier = 2
	}
	rn.CheckWf = !faulty
	var armed []*vstor.Fault
	if collect && col != nil {
		rn.Hooks = PickHooksFaults(col, kr, true, 0, func() int { return hitsOf(armed) })
	}
	leveldb.VerifPickExport(true)
	defer func() {
		leveldb.VerifForgetPick(rn.Stor)
		rn.Forget()
	}()
	done := make(chan struct{})
	go func() {
		defer close(done)
		defer func() {
			if x := recover(); x != nil {
				st.Failure = fmt.Sprintf("panic: %v", x)
			}
		}()
		runTwinBody(spec, faulty, rn, r, fr, pool, &st, col, collect, &armed)
	}()
	select {
	case <-done:
	case <-time.After(90 * time.Second):
		st.Failure = "scenario did not finish within 90 s"
		// stop whatever still runs in the background (a compaction retrying for ever keeps every DB of the process
		// from looking idle)
		go func() {
			defer func() { recover() }()
			if db := rn.DB; db != nil {
				db.Close()
			}
		}()
	}
	rn.mu.Lock()
	for k, v := range rn.Stats {
		st.Stats[k] += v
	}
	if len(rn.WfFailures) > 0 && st.Failure == "" {
		st.Failure = "version not well-formed: " + rn.WfFailures[0]
	}
	rn.mu.Unlock()
	return st
}

func runTwinBody(spec TwinSpec, faulty bool, rn *Runner, r, fr *vlib.RNG, pool [][]byte, st *TwinState, col *PickCol, collect bool, armed *[]*vstor.Fault) {
	if err := rn.Open(); err != nil {
		st.Failure = fmt.Sprintf("Open error %v", err)
		return
	}
	defer func() { rn.Close() }()
	db := rn.DB
	model := map[string][]byte{}
	fail := func(f string, a ...interface{}) {
		if st.Failure == "" {
			st.Failure = fmt.Sprintf(f, a...)
		}
	}
	check := func(when string) {
		for _, k := range pool {
			v, err := db.Get(k, nil)
			want, ok := model[string(k)]
			switch {
			case err == leveldb.ErrNotFound && !ok:
			case err == nil && ok && bytes.Equal(v, want):
			default:
				fail("%s: Get(%x) = %x, %v; expected present=%v %x", when, k, short(v), err, ok, short(want))
				return
			}
		}
	}
	rounds := spec.Rounds
	if rounds == 0 {
		rounds = r.Range(2, 5)
	}
	var snaps []*leveldb.Snapshot
	defer func() {
		for _, s := range snaps {
			s.Release()
		}
	}()
	write := func(n int) []byte {
		var lastKey []byte
		for i := 0; i < n; i++ {
			k := pool[r.Intn(len(pool))]
			var err error
			if r.Chance(1, 4) {
				err = db.Delete(k, nil)
				delete(model, string(k))
			} else {
				v := r.Bytes(r.Pick(3, 6, 3, 1)*r.Range(1, 40), nil)
				err = db.Put(k, v, nil)
				model[string(k)] = v
			}
			if err != nil {
				fail("write error %v", err)
				return lastKey
			}
			lastKey = k
		}
		return lastKey
	}
	flush := func(k []byte) {
		// mem overlaps [k, k+0x00): the whole memdb is flushed, the table pass touches that key only
		if err := db.CompactRange(util.Range{Start: k, Limit: append(append([]byte{}, k...), 0)}); err != nil {
			fail("CompactRange (flush) error %v", err)
		}
		leveldb.VerifWaitIdle(db, 30*time.Second)
	}
	reopen := func() bool {
		// flushing through a reopen is deterministic: recovery writes the journal's entries into level-0 tables before
		// the compaction goroutines start (CompactRange would race its table pass with the automatic trigger)
		if err := rn.Close(); err != nil {
			fail("Close error %v", err)
			return false
		}
		if err := rn.Open(); err != nil {
			fail("reopen error %v", err)
			return false
		}
		db = rn.DB
		leveldb.VerifWaitIdle(db, 30*time.Second)
		return true
	}
	for round := 0; round < rounds && st.Failure == ""; round++ {
		if k := write(r.Range(20, 160)); k == nil || st.Failure != "" {
			break
		}
		if !reopen() {
			break
		}
		// the range compaction under test
		rg := util.Range{}
		if r.Chance(1, 2) {
			a, b := pool[r.Intn(len(pool))], pool[r.Intn(len(pool))]
			if rn.Cmp.Compare(a, b) > 0 {
				a, b = b, a
			}
			rg = util.Range{Start: a, Limit: append(append([]byte{}, b...), 0)}
		}
		nf := r.Range(1, 3) // drawn in both twins
		var fs []*vstor.Fault
		if faulty {
			fs = armFaults(rn.Stor, fr, nf)
			rn.mu.Lock()
			*armed = append(*armed, fs...)
			rn.mu.Unlock()
		}
		err := db.CompactRange(rg)
		if err != nil && !faulty {
			fail("CompactRange error %v", err)
		}
		if !leveldb.VerifWaitIdle(db, 40*time.Second) {
			fail("DB not idle 40 s after a range compaction (faults armed: %v)", faulty)
			rn.Stor.Heal()
			return
		}
		rn.Stor.Heal()
		st.FaultHits += hitsOf(fs)
		leveldb.VerifWaitIdle(db, 20*time.Second)
		check(fmt.Sprintf("after the range compaction of round %d", round))
	}
	if st.Failure != "" {
		return
	}
	// final state
	ver := leveldb.VerifDumpVersion(db)
	nl := numLevels(ver)
	st.Levels = make([][]string, nl)
	for _, t := range ver {
		es, err := leveldb.VerifTableEntries(db, t)
		if err != nil {
			fail("cannot read live table %d: %v", t.Num, err)
			return
		}
		st.Levels[t.Level] = append(st.Levels[t.Level], entriesDigest(es))
	}
	it := db.NewIterator(nil, nil)
	h := fnv.New64a()
	n := 0
	for it.Next() {
		h.Write(it.Key())
		h.Write([]byte{0})
		h.Write(it.Value())
		h.Write([]byte{1})
		n++
	}
	it.Release()
	st.Scan = fmt.Sprintf("%d:%016x", n, h.Sum64())
	if n != len(model) {
		fail("final scan yields %d pairs, the oracle holds %d", n, len(model))
	}
	if !faulty {
		return
	}
	// drive the builder directly: multi-version input at level 0 (a held snapshot keeps older versions alive), small tables
	if s, err := db.GetSnapshot(); err == nil {
		snaps = append(snaps, s)
	}
	if k := write(r.Range(30, 120)); k != nil {
		flush(k)
	}
	ver = leveldb.VerifDumpVersion(db)
	for level := 0; level < numLevels(ver) && st.Failure == ""; level++ {
		if len(levelOf(ver, level)) == 0 {
			continue
		}
		tableSize := pickInt(fr, 128, 256, 512, 1024, rn.Opts.GetCompactionTableSize(level+1))
		clean := leveldb.VerifBuilderDrive(db, level, tableSize, true, 1, nil, nil)
		nFail := fr.Range(1, 4)
		faulted := leveldb.VerifBuilderDrive(db, level, tableSize, true, 12, func(i int) {
			if i < nFail {
				armFaults(rn.Stor, fr, 1)
			}
		}, func() { rn.Stor.Heal() })
		st.Stats["builder_drives"]++
		if msg := CompareDrives(clean, faulted); msg != "" {
			fail("level %d, table size %d: %s", level, tableSize, msg)
			return
		}
		if faulted != nil {
			for _, a := range faulted.Attempts {
				if a.Err != "" {
					st.Stats["builder_drive_failed_attempts"]++
					if a.SnapIter > 0 {
						st.Stats["builder_drive_resumes_from_snapshot"]++
					}
				}
			}
		}
		if collect && col != nil {
			if c, tags, ok := RenderKRetry(rn.Prog.Cfg.CmpID, rn.Opts, faulted); ok {
				hot := false
				for _, t := range tags {
					if t == "k_retry_resumed_from_snapshot" {
						hot = true
					}
				}
				st.Cases = append(st.Cases, KCand{Kind: "retry", Hot: hot, Tags: tags, Text: c})
			}
		}
	}
}

// CompareDrives is the builder-level twin oracle: the faulted drive must end with the tables and counters of the clean one.
func CompareDrives(clean, faulted *leveldb.VerifBuild) string {
	if clean == nil || faulted == nil {
		if clean != faulted {
			return "one drive found a compaction, the other none"
		}
		return ""
	}
	if clean.Panic != "" {
		return "failure-free builder run: " + clean.Panic
	}
	if faulted.Panic != "" {
		return "builder run under transient faults: " + faulted.Panic
	}
	if !clean.Done {
		return "failure-free builder run did not succeed: " + clean.Attempts[len(clean.Attempts)-1].Err
	}
	if !faulted.Done {
		return fmt.Sprintf("builder did not succeed within %d attempts although the storage was healed: %s", len(faulted.Attempts), faulted.Attempts[len(faulted.Attempts)-1].Err)
	}
	for _, a := range faulted.Attempts {
		if a.HasWriter {
			return "builder keeps a table writer after run returned"
		}
	}
	ca, fa := clean.Attempts[len(clean.Attempts)-1], faulted.Attempts[len(faulted.Attempts)-1]
	if len(clean.OutEntries) != len(faulted.OutEntries) {
		return fmt.Sprintf("after %d failed attempts the builder wrote %d tables, the failure-free run %d", len(faulted.Attempts)-1, len(faulted.OutEntries), len(clean.OutEntries))
	}
	for i := range clean.OutEntries {
		if entriesDigest(clean.OutEntries[i]) != entriesDigest(faulted.OutEntries[i]) {
			return fmt.Sprintf("after %d failed attempts output table %d holds %d entries differing from the failure-free run's %d entries (first keys %x/%d vs %x/%d)",
				len(faulted.Attempts)-1, i, len(faulted.OutEntries[i]), len(clean.OutEntries[i]),
				firstKey(faulted.OutEntries[i]), firstSeq(faulted.OutEntries[i]), firstKey(clean.OutEntries[i]), firstSeq(clean.OutEntries[i]))
		}
	}
	if ca.Drop != fa.Drop || ca.Kerr != fa.Kerr {
		return fmt.Sprintf("dropCnt/kerrCnt %d/%d after retries, %d/%d in the failure-free run", fa.Drop, fa.Kerr, ca.Drop, ca.Kerr)
	}
	return ""
}

func firstKey(es []leveldb.VerifEntry) []byte {
	if len(es) == 0 {
		return nil
	}
	return es[0].Ukey
}
func firstSeq(es []leveldb.VerifEntry) uint64 {
	if len(es) == 0 {
		return 0
	}
	return es[0].Seq
}

// CompareTwins is the scenario-level oracle.
func CompareTwins(clean, faulty TwinState) string {
	if clean.Failure != "" {
		return "fault-free run: " + clean.Failure
	}
	if faulty.Failure != "" {
		return "run with transient table faults during compactions: " + faulty.Failure
	}
	if clean.Scan != faulty.Scan {
		return fmt.Sprintf("DB contents differ after transient table faults during compactions: scan %s vs fault-free %s", faulty.Scan, clean.Scan)
	}
	if len(clean.Levels) != len(faulty.Levels) {
		return fmt.Sprintf("after transient faults the version has %d levels, the fault-free twin %d", len(faulty.Levels), len(clean.Levels))
	}
	for l := range clean.Levels {
		a, b := clean.Levels[l], faulty.Levels[l]
		if len(a) != len(b) {
			return fmt.Sprintf("level %d holds %d tables after transient faults, %d in the fault-free twin", l, len(b), len(a))
		}
		for i := range a {
			if a[i] != b[i] {
				return fmt.Sprintf("level %d table %d differs after transient faults (entries:digest %s vs fault-free %s)", l, i, b[i], a[i])
			}
		}
	}
	return ""
}
