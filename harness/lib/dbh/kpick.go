package dbh

import (
	"bytes"
	"encoding/binary"
	"fmt"
	"sort"
	"strings"
	"sync"
	"time"

	"github.com/syndtr/goleveldb/leveldb"
	"verifharness/lib/vlib"
)

// Correspondence cases that tie the picker/installer model (Lsm/Pick.v, evaluated by Corr/C06Run.v) to the running
// code — KPick, KFinish, KOverlaps, KMemLevel — and the "inputs closed" oracle on every observed table compaction.
// Tables travel as bounds only: KM num size (KE ukey seq kind "") (KE ukey seq kind "").

// MaxKTables: versions (or levels) with more tables than this are not rendered.
const MaxKTables = 80

func splitIKey(ik []byte) (ukey []byte, seq uint64, kind uint64, ok bool) {
	if len(ik) < 8 {
		return nil, 0, 0, false
	}
	n := binary.LittleEndian.Uint64(ik[len(ik)-8:])
	return ik[:len(ik)-8], n >> 8, n & 0xff, true
}

func kBound(ik []byte) (string, bool) {
	u, s, k, ok := splitIKey(ik)
	if !ok {
		return "", false
	}
	return fmt.Sprintf(`(KE %s %d %d "")`, vlib.CoqHex(u), s, k), true
}

// KMeta renders one table's recorded metadata.
func KMeta(t leveldb.VerifTable) (string, bool) {
	lo, ok1 := kBound(t.Imin)
	hi, ok2 := kBound(t.Imax)
	if !ok1 || !ok2 {
		return "", false
	}
	return fmt.Sprintf("KM %d %d %s %s", t.Num, t.Size, lo, hi), true
}

func numLevels(ver []leveldb.VerifTable) int {
	nl := 0
	for _, t := range ver {
		if t.Level+1 > nl {
			nl = t.Level + 1
		}
	}
	return nl
}

// KMetaList renders tables as list kmeta.
func KMetaList(ts []leveldb.VerifTable) (string, bool) {
	items := make([]string, 0, len(ts))
	for _, t := range ts {
		s, ok := KMeta(t)
		if !ok {
			return "", false
		}
		items = append(items, s)
	}
	return "[" + strings.Join(items, "; ") + "]", true
}

// KMetaLevels renders a version (tables in level order) as list (list kmeta); levels without tables in between are [].
func KMetaLevels(ver []leveldb.VerifTable) (string, bool) {
	nl := numLevels(ver)
	lv := make([]string, nl)
	for l := 0; l < nl; l++ {
		var ts []leveldb.VerifTable
		for _, t := range ver {
			if t.Level == l {
				ts = append(ts, t)
			}
		}
		s, ok := KMetaList(ts)
		if !ok {
			return "", false
		}
		lv[l] = s
	}
	return "[" + strings.Join(lv, "; ") + "]", true
}

// KNums renders file numbers as list N.
func KNums(ns []int64) string {
	items := make([]string, len(ns))
	for i, n := range ns {
		items[i] = fmt.Sprintf("%d", n)
	}
	return "[" + strings.Join(items, "; ") + "]"
}

// KLayout renders the table numbers per level (trailing empty levels dropped).
func KLayout(ver []leveldb.VerifTable) string {
	nl := numLevels(ver)
	lv := make([]string, nl)
	for l := 0; l < nl; l++ {
		var ns []int64
		for _, t := range ver {
			if t.Level == l {
				ns = append(ns, t.Num)
			}
		}
		lv[l] = KNums(ns)
	}
	return "[" + strings.Join(lv, "; ") + "]"
}

func kOptHex(b []byte) string {
	if b == nil {
		return "None"
	}
	return "(Some " + vlib.CoqHex(b) + ")"
}

// KCand is one rendered case with its selection class and the counters it stands for.
type KCand struct {
	Kind string // "pick", "finish", "overlaps", "memlevel", "wf"
	Hot  bool   // kept in preference to the others of its kind
	Top  bool   // kept in preference even to the hot ones (the rare shapes: all of them are kept up to the cap)
	Tags []string
	Text string
}

// PickCaps bounds the number of cases per kind written to the case files.
type PickCaps struct{ Pick, Finish, Overlaps, MemLevel, Wf, Build, Retry int }

// PickCol gathers candidates over all runs of a command (safe for concurrent runs).
type PickCol struct {
	mu    sync.Mutex
	Caps  PickCaps
	cands map[string][]KCand
}

func NewPickCol(caps PickCaps) *PickCol { return &PickCol{Caps: caps, cands: map[string][]KCand{}} }

func (c *PickCol) capOf(kind string) int {
	switch kind {
	case "pick":
		return c.Caps.Pick
	case "finish":
		return c.Caps.Finish
	case "overlaps":
		return c.Caps.Overlaps
	case "memlevel":
		return c.Caps.MemLevel
	case "build":
		return c.Caps.Build
	case "retry":
		return c.Caps.Retry
	}
	return c.Caps.Wf
}

// Add keeps the candidate unless the pool of its kind is full (hot candidates get a pool six times the cap, the
// others three times; the final choice thins the pools evenly).
func (c *PickCol) Add(k KCand) {
	if len(k.Text) > 60000 {
		return
	}
	c.mu.Lock()
	defer c.mu.Unlock()
	key := k.Kind
	lim := 3 * c.capOf(k.Kind)
	if k.Top {
		key += "!!"
	} else if k.Hot {
		key += "!"
		lim *= 2
	}
	if len(c.cands[key]) < lim {
		c.cands[key] = append(c.cands[key], k)
	}
}

func thin(l []KCand, n int) []KCand {
	if n <= 0 {
		return nil
	}
	if len(l) <= n {
		return l
	}
	out := make([]KCand, 0, n)
	for i := 0; i < n; i++ {
		out = append(out, l[i*len(l)/n])
	}
	return out
}

// Select returns the chosen cases (hot first, thinned evenly down to the caps), ordered so that consecutive equal
// shards hold about the same amount of text, and the counter totals of the chosen cases.
func (c *PickCol) Select(shards int) (cases []string, counts map[string]int) {
	c.mu.Lock()
	defer c.mu.Unlock()
	counts = map[string]int{}
	var chosen []KCand
	for _, kind := range []string{"pick", "finish", "overlaps", "memlevel", "wf", "build", "retry"} {
		n := c.capOf(kind)
		// the top class takes what it needs up to two thirds of the cap (more only if the other classes leave room)
		nTop := len(c.cands[kind+"!!"])
		if others := len(c.cands[kind+"!"]) + len(c.cands[kind]); nTop > n*2/3 {
			nTop = n * 2 / 3
			if n-others > nTop {
				nTop = n - others
			}
		}
		top := thin(c.cands[kind+"!!"], nTop)
		nHot, m := len(c.cands[kind+"!"]), n-len(top)
		if nHot > m*2/3 {
			nHot = m * 2 / 3
			if m-len(c.cands[kind]) > nHot {
				nHot = m - len(c.cands[kind])
			}
		}
		hot := thin(c.cands[kind+"!"], nHot)
		rest := thin(c.cands[kind], n-len(top)-len(hot))
		chosen = append(chosen, top...)
		chosen = append(chosen, hot...)
		chosen = append(chosen, rest...)
	}
	for _, k := range chosen {
		for _, t := range k.Tags {
			counts[t]++
		}
	}
	sort.SliceStable(chosen, func(i, j int) bool { return len(chosen[i].Text) > len(chosen[j].Text) })
	if shards < 1 {
		shards = 1
	}
	bins := make([][]string, shards)
	for i, k := range chosen {
		b := i % shards
		if (i/shards)%2 == 1 {
			b = shards - 1 - b
		}
		bins[b] = append(bins[b], k.Text)
	}
	// vlib.Result.WriteCases cuts the list into shards of ceil(n/shards) consecutive cases; the bins differ in
	// length by at most one, so its cuts fall within a few cases of the bin borders
	for _, b := range bins {
		cases = append(cases, b...)
	}
	return cases, counts
}

// pickRun is the per-run state behind the hooks.
type pickRun struct {
	col      *PickCol
	collect  bool
	kr       *vlib.RNG
	nPickTop int
	nPickHot int
	nPick    int
	nFinHot  int
	nFin     int
	nOv      int
	nMem     int
	nBuild   int
	// FaultHits (optional) reports how many injected storage faults have fired so far on the run's storage
	FaultHits func() int
	lastHits  int
}

// PickHooks returns the run hooks of the C06 command: the inputs-closed oracle and (when collect) the case
// collection on every committed record, and the getOverlaps/pickMemdbLevel probes after every few ops.
func PickHooks(col *PickCol, kr *vlib.RNG, collect bool, checkEvery int) Hooks {
	return PickHooksFaults(col, kr, collect, checkEvery, nil)
}

// PickHooksFaults is PickHooks for a run whose storage gets faults injected: builder cases of compactions during which
// a fault fired are kept in preference.
func PickHooksFaults(col *PickCol, kr *vlib.RNG, collect bool, checkEvery int, faultHits func() int) Hooks {
	pr := &pickRun{col: col, collect: collect && kr != nil && col != nil, kr: kr, FaultHits: faultHits}
	h := Hooks{CheckEvery: checkEvery, OnEdit: pr.onEdit}
	if pr.collect {
		h.AfterOp = pr.afterOp
	}
	return h
}

func ukeysOf(t leveldb.VerifTable) (lo, hi []byte, ok bool) {
	lo, _, _, ok1 := splitIKey(t.Imin)
	hi, _, _, ok2 := splitIKey(t.Imax)
	return lo, hi, ok1 && ok2
}

func levelOf(ver []leveldb.VerifTable, l int) []leveldb.VerifTable {
	var out []leveldb.VerifTable
	for _, t := range ver {
		if t.Level == l {
			out = append(out, t)
		}
	}
	return out
}

func hasNum(ns []int64, n int64) bool {
	for _, x := range ns {
		if x == n {
			return true
		}
	}
	return false
}

// hull returns the user-key hull of the tables of lv whose numbers are in nums.
func (r *Runner) hull(lv []leveldb.VerifTable, nums []int64) (umin, umax []byte, n int) {
	for _, t := range lv {
		if !hasNum(nums, t.Num) {
			continue
		}
		lo, hi, ok := ukeysOf(t)
		if !ok {
			continue
		}
		if n == 0 || r.Cmp.Compare(lo, umin) < 0 {
			umin = lo
		}
		if n == 0 || r.Cmp.Compare(hi, umax) > 0 {
			umax = hi
		}
		n++
	}
	return
}

func (r *Runner) overlapsHull(t leveldb.VerifTable, umin, umax []byte) bool {
	lo, hi, ok := ukeysOf(t)
	return ok && r.Cmp.Compare(hi, umin) >= 0 && r.Cmp.Compare(lo, umax) <= 0
}

// level0Closure: the level-0 tables reached from the seed by repeatedly adding every table overlapping the hull.
func (r *Runner) level0Closure(l0 []leveldb.VerifTable, seed []int64) []int64 {
	cur := append([]int64(nil), seed...)
	for {
		umin, umax, n := r.hull(l0, cur)
		if n == 0 {
			return cur
		}
		grew := false
		for _, t := range l0 {
			if !hasNum(cur, t.Num) && r.overlapsHull(t, umin, umax) {
				cur = append(cur, t.Num)
				grew = true
			}
		}
		if !grew {
			return cur
		}
	}
}

// InputsClosed is the (P) oracle on one observed table compaction: on the version it was picked on, every table of
// level+1 whose user-key range overlaps the hull of the chosen source tables must be an input, and for source
// level 0 so must every level-0 table overlapping that hull.  It returns failure texts.
func (r *Runner) InputsClosed(p *leveldb.VerifPick) []string {
	var msgs []string
	src := levelOf(p.Version, p.SourceLevel)
	umin, umax, n := r.hull(src, p.T0)
	if n != len(p.T0) || n == 0 {
		return []string{fmt.Sprintf("compaction at level %d: source inputs %v are not all tables of that level of the version it was picked on", p.SourceLevel, p.T0)}
	}
	for _, t := range levelOf(p.Version, p.SourceLevel+1) {
		if r.overlapsHull(t, umin, umax) && !hasNum(p.T1, t.Num) {
			lo, hi, _ := ukeysOf(t)
			msgs = append(msgs, fmt.Sprintf("compaction inputs not closed: level %d inputs %v span user keys [%x, %x]; table %d of level %d covers [%x, %x] but is not an input (level %d inputs %v)",
				p.SourceLevel, p.T0, umin, umax, t.Num, p.SourceLevel+1, lo, hi, p.SourceLevel+1, p.T1))
		}
	}
	for _, n := range p.T1 {
		found := false
		for _, t := range levelOf(p.Version, p.SourceLevel+1) {
			if t.Num == n {
				found = true
			}
		}
		if !found {
			msgs = append(msgs, fmt.Sprintf("compaction at level %d: input %d is not a table of level %d of the version it was picked on", p.SourceLevel, n, p.SourceLevel+1))
		}
	}
	if p.SourceLevel == 0 {
		for _, t := range src {
			if r.overlapsHull(t, umin, umax) && !hasNum(p.T0, t.Num) {
				lo, hi, _ := ukeysOf(t)
				msgs = append(msgs, fmt.Sprintf("compaction inputs not closed: level 0 inputs %v span user keys [%x, %x]; level-0 table %d covers [%x, %x] but is not an input",
					p.T0, umin, umax, t.Num, lo, hi))
			}
		}
	}
	return msgs
}

func sameSet(a []int64, b map[int64]bool) bool {
	if len(a) != len(b) {
		return false
	}
	for _, x := range a {
		if !b[x] {
			return false
		}
	}
	return true
}

// onEdit runs under r.mu (Hooks.OnEdit).
func (pr *pickRun) onEdit(r *Runner, e leveldb.VerifEdit) {
	cid := r.Prog.Cfg.CmpID
	base := leveldb.VerifCommitBase(e.Stor)
	if base == nil {
		r.Stats["commit_base_missing"]++
	} else if pr.collect && len(base) <= MaxKTables && len(e.Version) <= MaxKTables {
		hot := !e.Trivial || len(e.Deleted) > 0 || len(e.Added) != 1
		if (hot && pr.nFinHot < 24) || (!hot && pr.nFin < 6) {
			if c, ok := renderFinish(cid, base, e); ok {
				tags := []string{"k_finish"}
				if !e.Trivial {
					tags = append(tags, "k_finish_trivial_false")
				}
				if len(e.Deleted) > 0 {
					tags = append(tags, "k_finish_with_deletes")
				}
				if len(e.Added) > 1 {
					tags = append(tags, "k_finish_multi_add")
				}
				if len(e.Added) == 0 && len(e.Deleted) == 0 {
					tags = append(tags, "k_finish_no_tables")
				}
				pr.col.Add(KCand{Kind: "finish", Hot: hot, Tags: tags, Text: c})
				if hot {
					pr.nFinHot++
				} else {
					pr.nFin++
				}
			}
		}
	}
	if len(e.Deleted) == 0 {
		return
	}
	p := leveldb.VerifTakePick(e.Stor)
	if p == nil {
		r.Stats["pick_missing"]++
		return
	}
	// the record must delete exactly the compaction's inputs; a move deletes (and re-adds one level down) its only
	// source input.  A record that does not fit is only counted: the compaction itself is still compared.
	moved := len(e.Deleted) == 1 && len(e.Added) == 1 && e.Deleted[0].Num == e.Added[0].Num
	if moved {
		if !(len(p.T0) == 1 && p.T0[0] == e.Deleted[0].Num && e.Deleted[0].Level == p.SourceLevel && e.Added[0].Level == p.SourceLevel+1) {
			r.Stats["pick_not_matching_record"]++
		} else if len(p.T1) > 0 {
			r.Stats["moves_with_parents"]++
			r.WfFailures = append([]string{fmt.Sprintf("table %d moved from level %d to level %d although the compaction has level %d inputs %v",
				p.T0[0], p.SourceLevel, p.SourceLevel+1, p.SourceLevel+1, p.T1)}, r.WfFailures...)
		}
	} else {
		del0, del1 := map[int64]bool{}, map[int64]bool{}
		other := false
		for _, d := range e.Deleted {
			switch d.Level {
			case p.SourceLevel:
				del0[d.Num] = true
			case p.SourceLevel + 1:
				del1[d.Num] = true
			default:
				other = true
			}
		}
		if other || !sameSet(p.T0, del0) || !sameSet(p.T1, del1) {
			r.Stats["pick_not_matching_record"]++
		}
	}
	r.Stats["picks_observed"]++
	r.Stats[fmt.Sprintf("picks_observed_level_%d", p.SourceLevel)]++
	if msgs := r.InputsClosed(p); len(msgs) > 0 {
		// the pick precedes what the installed version shows: report it first
		r.Stats["inputs_not_closed"]++
		r.WfFailures = append(msgs, r.WfFailures...)
	}
	closure := p.Seed
	if p.SourceLevel == 0 {
		closure = r.level0Closure(levelOf(p.Version, 0), p.Seed)
	}
	expanded := len(p.T0) > len(closure)
	if expanded {
		r.Stats["picks_observed_expanded"]++
	}
	if len(closure) > len(p.Seed) {
		r.Stats["picks_observed_level0_closure_grew"]++
	}
	if len(p.T1) > 0 {
		r.Stats["picks_observed_with_parents"]++
	}
	if len(p.GP) > 0 {
		r.Stats["picks_observed_with_grandparents"]++
	}
	if pr.collect && !moved && pr.col.Caps.Build > 0 && pr.nBuild < 8 {
		// the builder case: the failure-free model builder must write exactly the installed tables
		if c, tags, ok := r.RenderKBuild(e, p); ok {
			hot := false
			for _, t := range tags {
				if t == "k_build_several_outputs" || t == "k_build_with_grandparents" {
					hot = true
				}
			}
			top := false
			if pr.FaultHits != nil {
				if h := pr.FaultHits(); h > pr.lastHits {
					pr.lastHits = h
					top = true
					tags = append(tags, "k_build_after_injected_faults")
				}
			}
			pr.col.Add(KCand{Kind: "build", Top: top, Hot: hot, Tags: tags, Text: c})
			pr.nBuild++
		}
	}
	if !pr.collect || len(p.Version) > MaxKTables {
		return
	}
	// the rare shape (the growth step of expand was taken) is always first in line; then compactions below level 0,
	// level-0 closures that grew the seed, compactions with grandparents, moves
	top := expanded
	hot := !top && (p.SourceLevel > 0 || len(closure) > len(p.Seed) || len(p.GP) > 0 || moved)
	if (top && pr.nPickTop >= 40) || (hot && pr.nPickHot >= 16) || (!top && !hot && pr.nPick >= 4) {
		return
	}
	v, ok := KMetaLevels(p.Version)
	if !ok {
		return
	}
	tags := []string{"k_pick", fmt.Sprintf("k_pick_src_level_%d", p.SourceLevel)}
	if expanded {
		tags = append(tags, "k_pick_expanded")
		if p.SourceLevel > 0 {
			tags = append(tags, "k_pick_expanded_below_level0")
		}
	}
	if p.SourceLevel == 0 {
		tags = append(tags, "k_pick_level0")
		if len(closure) > len(p.Seed) {
			tags = append(tags, "k_pick_level0_closure_grew")
		}
	}
	if moved {
		tags = append(tags, "k_pick_moves")
	}
	if len(p.T1) > 0 {
		tags = append(tags, "k_pick_with_parents")
	}
	if len(p.GP) > 0 {
		tags = append(tags, "k_pick_with_grandparents")
	}
	if p.NoTrivial {
		tags = append(tags, "k_pick_no_trivial")
	}
	if len(p.Seed) > 1 {
		tags = append(tags, "k_pick_multi_seed")
	}
	c := fmt.Sprintf("KPick %d %s %d %s %d %d %s %s %s %s %s", cid, v, p.SourceLevel, KNums(p.Seed), p.ExpandLimit, p.MaxGPOverlaps,
		vlib.CoqBool(p.NoTrivial), vlib.CoqBool(moved), KNums(p.T0), KNums(p.T1), KNums(p.GP))
	pr.col.Add(KCand{Kind: "pick", Top: top, Hot: hot, Tags: tags, Text: c})
	switch {
	case top:
		pr.nPickTop++
	case hot:
		pr.nPickHot++
	default:
		pr.nPick++
	}
}

func renderFinish(cid int, base []leveldb.VerifTable, e leveldb.VerifEdit) (string, bool) {
	b, ok := KMetaLevels(base)
	if !ok {
		return "", false
	}
	dels := make([]string, len(e.Deleted))
	for i, d := range e.Deleted {
		dels[i] = fmt.Sprintf("(%d, %d)", d.Level, d.Num)
	}
	adds := make([]string, len(e.Added))
	for i, a := range e.Added {
		m, ok := KMeta(a)
		if !ok {
			return "", false
		}
		adds[i] = fmt.Sprintf("(%d, %s)", a.Level, m)
	}
	return fmt.Sprintf("KFinish %d %s %s [%s] [%s] %s", cid, b, vlib.CoqBool(e.Trivial), strings.Join(dels, "; "), strings.Join(adds, "; "),
		KLayout(e.Version)), true
}

// probeKey draws a bound biased to the table boundaries of ver.
func (pr *pickRun) probeKey(r *Runner, ver []leveldb.VerifTable, allowNil bool) []byte {
	kr := pr.kr
	switch kr.Pick(2, 8, 4, 4, 3, 2, 1) {
	case 0:
		if allowNil {
			return nil
		}
	case 1, 2, 3:
		if len(ver) > 0 {
			t := ver[kr.Intn(len(ver))]
			lo, hi, ok := ukeysOf(t)
			if ok {
				k := lo
				if kr.Bool() {
					k = hi
				}
				k = append([]byte{}, k...)
				switch kr.Intn(4) {
				case 0: // just above in bytewise order
					k = append(k, 0)
				case 1: // a neighbour below: last byte decremented, or the last byte dropped
					if n := len(k); n > 0 {
						if k[n-1] > 0 {
							k[n-1]--
						} else {
							k = k[:n-1]
						}
					}
				}
				return k
			}
		}
	case 4:
		if n := len(r.Prog.Pool); n > 0 {
			return append([]byte{}, r.Prog.Pool[kr.Intn(n)]...)
		}
	case 5:
		return kr.Bytes(kr.Range(1, 6), []byte("abcxyz\x00\xff01"))
	case 6:
		return []byte{}
	}
	if n := len(r.Prog.Pool); n > 0 {
		return append([]byte{}, r.Prog.Pool[kr.Intn(n)]...)
	}
	return []byte("k")
}

// afterOp runs on the program goroutine, without r.mu.
func (pr *pickRun) afterOp(r *Runner, i int, op *Op) {
	if r.DB == nil || !(i%5 == 2 || op.Kind == OpWaitIdle || op.Kind == OpCompact) {
		return
	}
	cid := r.Prog.Cfg.CmpID
	kr := pr.kr
	ver := leveldb.VerifDumpVersion(r.DB)
	if len(ver) == 0 || len(ver) > MaxKTables {
		return
	}
	nl := numLevels(ver)
	if pr.nOv < 12 {
		for rep := 0; rep < 2; rep++ {
			level := kr.Intn(nl)
			if kr.Chance(1, 3) && nl > 1 {
				level = kr.Range(1, nl-1)
			}
			near := ver
			if kr.Chance(2, 3) {
				if lv := levelOf(ver, level); len(lv) > 0 {
					near = lv
				}
			}
			umin, umax := pr.probeKey(r, near, true), pr.probeKey(r, near, true)
			inverted := false
			if umin != nil && umax != nil && r.Cmp.Compare(umin, umax) > 0 {
				if kr.Chance(4, 5) {
					umin, umax = umax, umin
				} else {
					inverted = true
				}
			}
			overlapped := level == 0
			tf, got := leveldb.VerifProbeOverlaps(r.DB, level, umin, umax, overlapped)
			if len(tf) == 0 || len(tf) > MaxKTables {
				continue
			}
			tfs, ok := KMetaList(tf)
			if !ok {
				continue
			}
			tags := []string{"k_overlaps"}
			if overlapped {
				tags = append(tags, "k_overlaps_level0")
			}
			if umin == nil || umax == nil {
				tags = append(tags, "k_overlaps_nil_bound")
			}
			if (umin != nil && len(umin) == 0) || (umax != nil && len(umax) == 0) {
				tags = append(tags, "k_overlaps_empty_bound")
			}
			if inverted {
				tags = append(tags, "k_overlaps_inverted")
			}
			if len(got) == 0 {
				tags = append(tags, "k_overlaps_none_returned")
			} else if len(got) > 1 {
				tags = append(tags, "k_overlaps_several_returned")
			}
			if overlapped && len(got) > 0 {
				// did the scan widen the range? some returned table reaches outside the asked range
				for _, t := range tf {
					lo, hi, _ := ukeysOf(t)
					if hasNum(got, t.Num) && ((umin != nil && r.Cmp.Compare(lo, umin) < 0) || (umax != nil && r.Cmp.Compare(hi, umax) > 0)) {
						tags = append(tags, "k_overlaps_level0_widened")
						break
					}
				}
			}
			pr.col.Add(KCand{Kind: "overlaps", Hot: !inverted && len(got) > 1, Tags: tags,
				Text: fmt.Sprintf("KOverlaps %d %s %s %s %s %s", cid, tfs, kOptHex(umin), kOptHex(umax), vlib.CoqBool(overlapped), KNums(got))})
			pr.nOv++
		}
	}
	if pr.nMem < 6 && kr.Chance(1, 2) {
		umin, umax := pr.probeKey(r, ver, false), pr.probeKey(r, ver, false)
		inverted := false
		if r.Cmp.Compare(umin, umax) > 0 {
			if kr.Chance(9, 10) {
				umin, umax = umax, umin
			} else {
				inverted = true
			}
		}
		maxLevel := kr.Range(1, 3)
		pv, gpl, got := leveldb.VerifProbeMemdbLevel(r.DB, umin, umax, maxLevel)
		if len(pv) > MaxKTables {
			return
		}
		vs, ok := KMetaLevels(pv)
		if !ok {
			return
		}
		tags := []string{"k_memlevel", fmt.Sprintf("k_memlevel_picked_%d", got)}
		if inverted {
			tags = append(tags, "k_memlevel_inverted")
		}
		if got > 0 && got < maxLevel {
			tags = append(tags, "k_memlevel_stopped_between")
		}
		pr.col.Add(KCand{Kind: "memlevel", Hot: !inverted && got > 0, Tags: tags,
			Text: fmt.Sprintf("KMemLevel %d %s %s %s %s %d %d", cid, vs, vlib.CoqHex(umin), vlib.CoqHex(umax), KNums(gpl), maxLevel, got)})
		pr.nMem++
	}
}

// RunPick is RunWith followed by dropping what the repo-side pick export keeps for the run's storage.
//
// Deep trees: a program whose option point has the smallest level sizes (tot=4096 ts=1024) and l0 != 1 runs with
// CompactionTotalSizeMultiplier 2 instead of 10, so that short programs reach compactions at source levels >= 2.
// The setting is derived from the program's Cfg, hence the same in generation, shrinking and replay.
func RunPick(p *Program, hooks Hooks, checkWf bool, setup func(*Runner)) (RunResult, *Runner) {
	leveldb.VerifPickExport(true)
	rr, rn := RunWith(p, hooks, checkWf, false, func(rn *Runner) {
		if c := p.Cfg; c.TotalSize == 4096 && c.TableSize == 1024 && c.L0Trigger != 1 {
			rn.Opts.CompactionTotalSizeMultiplier = 2
		}
		if setup != nil {
			setup(rn)
		}
	})
	leveldb.VerifForgetPick(rn.Stor)
	return rr, rn
}

// ShrinkPick is ShrinkAndDescribe over RunPick (hooks carries the inputs-closed oracle).
func ShrinkPick(p *Program, hooks func() Hooks, checkWf bool, budget time.Duration) (*Program, string) {
	fails := func(q *Program) bool {
		for i := 0; i < 2; i++ {
			rr, _ := RunPick(q, hooks(), checkWf, nil)
			if rr.Failure != nil || rr.Panic != "" || rr.Hung || len(rr.Wf) > 0 {
				return true
			}
		}
		return false
	}
	q := Shrink(p, fails, budget)
	d := ""
	for i := 0; i < 3 && d == ""; i++ {
		rr, _ := RunPick(q, hooks(), checkWf, nil)
		d = Describe(rr)
	}
	if d == "" {
		return p, ""
	}
	return q, fmt.Sprintf("%s [%d ops after shrinking; %s]", d, len(q.Ops), q.Cfg.String())
}

var _ = bytes.Equal
