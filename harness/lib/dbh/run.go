package dbh

import (
	"bytes"
	"fmt"
	"runtime/debug"
	"sort"
	"sync"
	"sync/atomic"
	"time"

	"github.com/syndtr/goleveldb/leveldb"
	"github.com/syndtr/goleveldb/leveldb/comparer"
	"github.com/syndtr/goleveldb/leveldb/iterator"
	"github.com/syndtr/goleveldb/leveldb/opt"
	"github.com/syndtr/goleveldb/leveldb/util"
	"verifharness/lib/vlib"
	"verifharness/lib/vstor"
)

// Failure is one oracle failure found while running a program.
type Failure struct {
	OpIndex int    `json:"op_index"`
	What    string `json:"what"`
}

func (f *Failure) Error() string { return fmt.Sprintf("op %d: %s", f.OpIndex, f.What) }

// KV pair list sorted by the comparer.
type KV struct{ K, V []byte }

// Oracle is the plain map driven by the same operations.  It is keyed by the stored spelling of the user key and
// holds at most one pair per equivalence class of the comparer (cmpx.go: Find/Put/Del/Apply); for the injective
// comparers that is the plain Go map keyed by the key bytes.
type Oracle map[string][]byte

func (o Oracle) Clone() Oracle {
	c := make(Oracle, len(o))
	for k, v := range o {
		c[k] = v
	}
	return c
}

// Sorted returns the live pairs in comparer order, restricted to [start, limit).
func (o Oracle) Sorted(cmp comparer.Comparer, start, limit []byte, hasStart, hasLimit bool) []KV {
	var out []KV
	for k, v := range o {
		kb := []byte(k)
		if hasStart && cmp.Compare(kb, start) < 0 {
			continue
		}
		if hasLimit && cmp.Compare(kb, limit) >= 0 {
			continue
		}
		out = append(out, KV{kb, v})
	}
	sort.Slice(out, func(i, j int) bool { return cmp.Compare(out[i].K, out[j].K) < 0 })
	return out
}

type snapState struct {
	snap   *leveldb.Snapshot
	frozen Oracle
	seq    uint64
}

type iterState struct {
	it     iterator.Iterator
	list   []KV // creation-time contents
	pos    int  // -1 = before first, len = after last
	closed bool
}

// Hooks lets a check observe the run.
type Hooks struct {
	// AfterOp is called after each op with the runner (e.g. to take crash images or dump versions).
	AfterOp func(r *Runner, i int, op *Op)
	// OnEdit is called (on the committing goroutine) for every committed session record.
	OnEdit func(r *Runner, e leveldb.VerifEdit)
	// CheckEvery: run the full Get/Has oracle every n-th write op (0 = only on OpCheckAll).
	CheckEvery int
}

// Runner executes a program against the real DB over a vstor and checks the map oracle.
type Runner struct {
	Prog   *Program
	Stor   *vstor.Stor
	DB     *leveldb.DB
	Opts   *opt.Options
	Cmp    comparer.Comparer
	Model  Oracle
	Snaps  []*snapState
	Iters  []*iterState
	Txn    *leveldb.Transaction
	TxnMod Oracle // overlay view inside the transaction
	Hooks  Hooks
	Stats  map[string]int
	mu     sync.Mutex
	// Edits collected through the commit hook (guarded by mu)
	Edits []leveldb.VerifEdit
	// WfFailures reported by the version well-formedness check (guarded by mu)
	WfFailures []string
	CheckWf    bool
	tableCache map[int64][]leveldb.VerifEntry
	nWrites    int
	// correspondence (K) collection: entries of every table ever added (by number), rendered cases
	TableEntries map[int64][]leveldb.VerifEntry
	CollectK     bool
	KCap         int
	KCases       []string
	nKCompact    int
	nKWf         int
	lastSeqSeen  uint64
	prevVersion  []leveldb.VerifTable
	liveSnaps    int32
	// Timeout for any single API call (watchdog)
	CallTimeout time.Duration
}

// NewRunner opens a fresh DB on a fresh storage.
func NewRunner(p *Program, keepLog bool) (*Runner, error) {
	r := &Runner{Prog: p, Stor: vstor.New(keepLog), Opts: p.Cfg.Options(), Model: Oracle{}, Stats: map[string]int{},
		tableCache: map[int64][]leveldb.VerifEntry{}, CallTimeout: 60 * time.Second,
		TableEntries: map[int64][]leveldb.VerifEntry{}, KCap: 6}
	r.Cmp = r.Opts.Comparer
	return r, nil
}

var (
	hookOnce sync.Once
	runners  sync.Map // storage.Storage -> *Runner
)

// the commit hook is process-wide; it dispatches on the storage the committing session runs on
func (r *Runner) installHook() {
	runners.Store(r.Stor, r)
	hookOnce.Do(func() {
		leveldb.VerifSetCommitHook(func(e leveldb.VerifEdit) {
			if x, ok := runners.Load(e.Stor); ok {
				x.(*Runner).onEdit(e)
			}
		})
	})
}

// Forget unregisters the runner's storage from the hook dispatcher.
func (r *Runner) Forget() { runners.Delete(r.Stor) }

func (r *Runner) onEdit(e leveldb.VerifEdit) {
	{
		r.mu.Lock()
		defer r.mu.Unlock()
		r.Stats["edits"]++
		if len(e.Deleted) > 0 && len(e.Added) > 0 {
			r.Stats["table_compactions"]++
		}
		if len(e.Deleted) == 1 && len(e.Added) == 1 && e.Deleted[0].Num == e.Added[0].Num {
			r.Stats["trivial_moves"]++
		}
		nl := 0
		for _, t := range e.Version {
			if t.Level+1 > nl {
				nl = t.Level + 1
			}
		}
		if nl > r.Stats["max_levels"] {
			r.Stats["max_levels"] = nl
		}
		r.kOnEdit(e)
		if r.CheckWf {
			if msgs := CheckVersionWf(r.Cmp, e, r.tableCache, r.Stor); len(msgs) > 0 {
				r.WfFailures = append(r.WfFailures, msgs...)
			}
		}
		if r.Hooks.OnEdit != nil {
			r.Hooks.OnEdit(r, e)
		}
	}
}

func (r *Runner) stat(k string, n int) {
	r.mu.Lock()
	r.Stats[k] += n
	r.mu.Unlock()
}

func (r *Runner) statMax(k string, n int) {
	r.mu.Lock()
	if n > r.Stats[k] {
		r.Stats[k] = n
	}
	r.mu.Unlock()
}

// Open opens (or reopens) the DB.
func (r *Runner) Open() error {
	r.installHook()
	db, err := leveldb.Open(r.Stor, r.Opts)
	if err != nil {
		return err
	}
	r.DB = db
	r.mu.Lock()
	r.prevVersion = leveldb.VerifDumpVersion(db)
	r.mu.Unlock()
	return nil
}

// Close releases every handle and closes the DB.
func (r *Runner) Close() error {
	for _, s := range r.Snaps {
		s.snap.Release()
	}
	r.Snaps = nil
	atomic.StoreInt32(&r.liveSnaps, 0)
	for _, it := range r.Iters {
		if !it.closed {
			it.it.Release()
		}
	}
	r.Iters = nil
	if r.Txn != nil {
		r.Txn.Discard()
		r.Txn, r.TxnMod = nil, nil
	}
	if r.DB == nil {
		return nil
	}
	err := r.DB.Close()
	r.DB = nil
	r.mu.Lock()
	r.prevVersion = nil
	r.mu.Unlock()
	return err
}

func valEq(a, b []byte) bool { return bytes.Equal(a, b) }

func short(b []byte) string {
	if len(b) > 24 {
		return fmt.Sprintf("%x…(%d bytes)", b[:24], len(b))
	}
	return fmt.Sprintf("%x", b)
}

// checkGet compares one Get/Has with an oracle view through the given getter.
func checkGet(cmp comparer.Comparer, view Oracle, k []byte, get func([]byte) ([]byte, error), has func([]byte) (bool, error), what string) *Failure {
	_, want, ok := view.Find(cmp, k)
	v, err := get(k)
	if ok {
		if err != nil {
			return &Failure{What: fmt.Sprintf("%s Get(%x): error %v, oracle has value %s", what, k, err, short(want))}
		}
		if !valEq(v, want) {
			return &Failure{What: fmt.Sprintf("%s Get(%x) = %s, oracle says %s", what, k, short(v), short(want))}
		}
	} else if err != leveldb.ErrNotFound {
		return &Failure{What: fmt.Sprintf("%s Get(%x) = %s err=%v, oracle says not found", what, k, short(v), err)}
	}
	if has != nil {
		h, err := has(k)
		if err != nil || h != ok {
			return &Failure{What: fmt.Sprintf("%s Has(%x) = %v err=%v, oracle says %v", what, k, h, err, ok)}
		}
	}
	return nil
}

// checkScan iterates forward and backward and compares with the sorted oracle list.
func checkScan(cmp comparer.Comparer, view Oracle, it iterator.Iterator, op *Op, what string) *Failure {
	defer it.Release()
	var start, limit []byte
	var hs, hl bool
	if op != nil {
		start, limit, hs, hl = op.K, op.K2, op.HasK, op.HasK2
	}
	want := view.Sorted(cmp, start, limit, hs, hl)
	i := 0
	for ok := it.First(); ok; ok = it.Next() {
		if i >= len(want) {
			return &Failure{What: fmt.Sprintf("%s forward scan yields extra key %x (oracle has %d pairs)", what, it.Key(), len(want))}
		}
		if !bytes.Equal(it.Key(), want[i].K) || !valEq(it.Value(), want[i].V) {
			return &Failure{What: fmt.Sprintf("%s forward scan pair %d = (%x,%s), oracle says (%x,%s)", what, i, it.Key(), short(it.Value()), want[i].K, short(want[i].V))}
		}
		i++
	}
	if err := it.Error(); err != nil {
		return &Failure{What: fmt.Sprintf("%s scan error %v", what, err)}
	}
	if i != len(want) {
		return &Failure{What: fmt.Sprintf("%s forward scan yields %d pairs, oracle has %d (first missing %x)", what, i, len(want), want[i].K)}
	}
	i = len(want) - 1
	for ok := it.Last(); ok; ok = it.Prev() {
		if i < 0 {
			return &Failure{What: fmt.Sprintf("%s backward scan yields extra key %x", what, it.Key())}
		}
		if !bytes.Equal(it.Key(), want[i].K) || !valEq(it.Value(), want[i].V) {
			return &Failure{What: fmt.Sprintf("%s backward scan pair %d = (%x,%s), oracle says (%x,%s)", what, i, it.Key(), short(it.Value()), want[i].K, short(want[i].V))}
		}
		i--
	}
	if i != -1 {
		return &Failure{What: fmt.Sprintf("%s backward scan stops early, %d pairs missing", what, i+1)}
	}
	if err := it.Error(); err != nil {
		return &Failure{What: fmt.Sprintf("%s scan error %v", what, err)}
	}
	return nil
}

func rng(op *Op) *util.Range {
	if op == nil || (!op.HasK && !op.HasK2) {
		return nil
	}
	rg := &util.Range{}
	if op.HasK {
		rg.Start = append([]byte{}, op.K...)
	}
	if op.HasK2 {
		rg.Limit = append([]byte{}, op.K2...)
	}
	return rg
}

// CheckAll compares Get/Has of every pool key and four absent keys plus a full scan with the oracle, and every
// live snapshot with its frozen copy.
func (r *Runner) CheckAll(scan bool) *Failure {
	for _, k := range r.Prog.Pool {
		if f := checkGet(r.Cmp, r.Model, k, func(k []byte) ([]byte, error) { return r.DB.Get(k, nil) },
			func(k []byte) (bool, error) { return r.DB.Has(k, nil) }, "DB"); f != nil {
			return f
		}
	}
	for i := 0; i < 4; i++ {
		k := []byte(fmt.Sprintf("\x02absent-%d", i))
		if f := checkGet(r.Cmp, r.Model, k, func(k []byte) ([]byte, error) { return r.DB.Get(k, nil) },
			func(k []byte) (bool, error) { return r.DB.Has(k, nil) }, "DB"); f != nil {
			return f
		}
	}
	if scan {
		if f := checkScan(r.Cmp, r.Model, r.DB.NewIterator(nil, nil), nil, "DB"); f != nil {
			return f
		}
	}
	for si, s := range r.Snaps {
		for _, k := range r.Prog.Pool {
			if f := checkGet(r.Cmp, s.frozen, k, func(k []byte) ([]byte, error) { return s.snap.Get(k, nil) },
				func(k []byte) (bool, error) { return s.snap.Has(k, nil) }, fmt.Sprintf("snapshot#%d(seq %d)", si, s.seq)); f != nil {
				return f
			}
		}
		if scan {
			if f := checkScan(r.Cmp, s.frozen, s.snap.NewIterator(nil, nil), nil, fmt.Sprintf("snapshot#%d(seq %d)", si, s.seq)); f != nil {
				return f
			}
		}
	}
	return nil
}

// applyRecs applies batch records to an oracle view.
func applyRecs(cmp comparer.Comparer, m Oracle, recs []Rec) { m.Apply(cmp, recs) }

func mkBatch(recs []Rec) *leveldb.Batch {
	b := new(leveldb.Batch)
	for _, rec := range recs {
		if rec.Del {
			b.Delete(rec.K)
		} else {
			b.Put(rec.K, rec.V)
		}
	}
	return b
}

// Step executes one op and checks its own result. A non-nil Failure is a property violation.
func (r *Runner) Step(i int, op *Op) (f *Failure) {
	defer func() {
		if f != nil {
			f.OpIndex = i
		}
	}()
	r.stat("op_"+string(op.Kind), 1)
	wo := &opt.WriteOptions{Sync: op.Sync}
	switch op.Kind {
	case OpPut:
		if r.Txn != nil {
			return nil // writers wait while a transaction is open: generated programs never do this
		}
		if err := r.DB.Put(op.K, op.V, wo); err != nil {
			return &Failure{What: fmt.Sprintf("Put error %v", err)}
		}
		r.Model.Put(r.Cmp, op.K, op.V)
		r.nWrites++
	case OpDelete:
		if r.Txn != nil {
			return nil
		}
		if err := r.DB.Delete(op.K, wo); err != nil {
			return &Failure{What: fmt.Sprintf("Delete error %v", err)}
		}
		r.Model.Del(r.Cmp, op.K)
		r.nWrites++
	case OpBatch:
		if r.Txn != nil {
			return nil
		}
		if err := r.DB.Write(mkBatch(op.Recs), wo); err != nil {
			return &Failure{What: fmt.Sprintf("Write error %v", err)}
		}
		applyRecs(r.Cmp, r.Model, op.Recs)
		r.nWrites++
	case OpGet:
		return checkGet(r.Cmp, r.Model, op.K, func(k []byte) ([]byte, error) { return r.DB.Get(k, nil) }, nil, "DB")
	case OpHas:
		_, _, want := r.Model.Find(r.Cmp, op.K)
		h, err := r.DB.Has(op.K, nil)
		if err != nil || h != want {
			return &Failure{What: fmt.Sprintf("Has(%x) = %v err=%v, oracle says %v", op.K, h, err, want)}
		}
	case OpScan:
		return checkScan(r.Cmp, r.Model, r.DB.NewIterator(rng(op), nil), op, "DB")
	case OpSnap:
		s, err := r.DB.GetSnapshot()
		if err != nil {
			return &Failure{What: fmt.Sprintf("GetSnapshot error %v", err)}
		}
		r.Snaps = append(r.Snaps, &snapState{snap: s, frozen: r.Model.Clone(), seq: leveldb.VerifSnapshotSeq(s)})
		r.statMax("max_live_snapshots", len(r.Snaps))
		atomic.StoreInt32(&r.liveSnaps, int32(len(r.Snaps)))
	case OpSnapRead:
		if len(r.Snaps) == 0 {
			return nil
		}
		si := op.I % len(r.Snaps)
		s := r.Snaps[si]
		what := fmt.Sprintf("snapshot#%d(seq %d)", si, s.seq)
		for _, k := range r.Prog.Pool {
			if f := checkGet(r.Cmp, s.frozen, k, func(k []byte) ([]byte, error) { return s.snap.Get(k, nil) },
				func(k []byte) (bool, error) { return s.snap.Has(k, nil) }, what); f != nil {
				return f
			}
		}
		return checkScan(r.Cmp, s.frozen, s.snap.NewIterator(nil, nil), nil, what)
	case OpSnapRelease:
		if len(r.Snaps) == 0 {
			return nil
		}
		si := op.I % len(r.Snaps)
		r.Snaps[si].snap.Release()
		r.Snaps = append(r.Snaps[:si], r.Snaps[si+1:]...)
		atomic.StoreInt32(&r.liveSnaps, int32(len(r.Snaps)))
		// releasing one snapshot must not affect the others nor the live DB: verified by the next reads
	case OpIterOpen:
		it := r.DB.NewIterator(rng(op), nil)
		r.Iters = append(r.Iters, &iterState{it: it, list: r.Model.Sorted(r.Cmp, op.K, op.K2, op.HasK, op.HasK2), pos: -1})
	case OpIterStep:
		if len(r.Iters) == 0 {
			return nil
		}
		is := r.Iters[op.I%len(r.Iters)]
		return stepIter(is, op.I/64)
	case OpIterClose:
		if len(r.Iters) == 0 {
			return nil
		}
		ii := op.I % len(r.Iters)
		r.Iters[ii].it.Release()
		r.Iters = append(r.Iters[:ii], r.Iters[ii+1:]...)
	case OpCompact:
		if r.Txn != nil {
			return nil
		}
		rg := util.Range{}
		if op.HasK {
			rg.Start = op.K
		}
		if op.HasK2 {
			rg.Limit = op.K2
		}
		if err := r.DB.CompactRange(rg); err != nil {
			return &Failure{What: fmt.Sprintf("CompactRange error %v", err)}
		}
	case OpReopen:
		if err := r.Close(); err != nil {
			return &Failure{What: fmt.Sprintf("Close error %v", err)}
		}
		if err := r.Open(); err != nil {
			return &Failure{What: fmt.Sprintf("reopen error %v", err)}
		}
		return r.CheckAll(true)
	case OpWaitIdle:
		if r.Txn == nil {
			leveldb.VerifWaitIdle(r.DB, 20*time.Second)
		}
	case OpTxnOpen:
		if r.Txn != nil {
			return nil
		}
		tr, err := r.DB.OpenTransaction()
		if err != nil {
			return &Failure{What: fmt.Sprintf("OpenTransaction error %v", err)}
		}
		r.Txn, r.TxnMod = tr, r.Model.Clone()
	case OpTxnPut:
		if r.Txn == nil {
			return nil
		}
		if err := r.Txn.Put(op.K, op.V, nil); err != nil {
			return &Failure{What: fmt.Sprintf("Transaction.Put error %v", err)}
		}
		r.TxnMod.Put(r.Cmp, op.K, op.V)
	case OpTxnDel:
		if r.Txn == nil {
			return nil
		}
		if err := r.Txn.Delete(op.K, nil); err != nil {
			return &Failure{What: fmt.Sprintf("Transaction.Delete error %v", err)}
		}
		r.TxnMod.Del(r.Cmp, op.K)
	case OpTxnBatch:
		if r.Txn == nil {
			return nil
		}
		if err := r.Txn.Write(mkBatch(op.Recs), nil); err != nil {
			return &Failure{What: fmt.Sprintf("Transaction.Write error %v", err)}
		}
		applyRecs(r.Cmp, r.TxnMod, op.Recs)
	case OpTxnGet:
		if r.Txn == nil {
			return nil
		}
		return checkGet(r.Cmp, r.TxnMod, op.K, func(k []byte) ([]byte, error) { return r.Txn.Get(k, nil) },
			func(k []byte) (bool, error) { return r.Txn.Has(k, nil) }, "transaction")
	case OpTxnScan:
		if r.Txn == nil {
			return nil
		}
		if f := checkScan(r.Cmp, r.TxnMod, r.Txn.NewIterator(nil, nil), nil, "transaction"); f != nil {
			return f
		}
		// everyone else sees none of the transaction's writes
		return r.CheckAll(true)
	case OpTxnCommit:
		if r.Txn == nil {
			return nil
		}
		if err := r.Txn.Commit(); err != nil {
			return &Failure{What: fmt.Sprintf("Transaction.Commit error %v", err)}
		}
		r.Model, r.Txn, r.TxnMod = r.TxnMod, nil, nil
		r.stat("txn_committed", 1)
		return r.CheckAll(false)
	case OpTxnDiscard:
		if r.Txn == nil {
			return nil
		}
		r.Txn.Discard()
		r.Txn, r.TxnMod = nil, nil
		r.stat("txn_discarded", 1)
		return r.CheckAll(false)
	case OpCheckAll:
		return r.CheckAll(true)
	}
	if r.Hooks.CheckEvery > 0 && (op.Kind == OpPut || op.Kind == OpDelete || op.Kind == OpBatch) && r.nWrites%r.Hooks.CheckEvery == 0 {
		return r.CheckAll(false)
	}
	return nil
}

// stepIter advances a long-lived iterator by a small pseudo-random walk and compares with its creation-time list.
func stepIter(is *iterState, code int) *Failure {
	n := len(is.list)
	for s := 0; s < 3; s++ {
		var ok bool
		var what string
		switch (code >> uint(2*s)) & 3 {
		case 0, 1:
			ok = is.it.Next()
			what = "Next"
			if is.pos < n {
				is.pos++
			}
		case 2:
			ok = is.it.Prev()
			what = "Prev"
			if is.pos >= 0 {
				is.pos--
			}
		case 3:
			ok = is.it.First()
			what = "First"
			is.pos = 0
			if n == 0 {
				is.pos = n
			}
		}
		valid := is.pos >= 0 && is.pos < n
		if ok != valid {
			return &Failure{What: fmt.Sprintf("pinned iterator %s returned %v, creation-time list says %v (pos %d of %d)", what, ok, valid, is.pos, n)}
		}
		if valid && (!bytes.Equal(is.it.Key(), is.list[is.pos].K) || !valEq(is.it.Value(), is.list[is.pos].V)) {
			return &Failure{What: fmt.Sprintf("pinned iterator after %s shows (%x,%s), creation-time list has (%x,%s)", what, is.it.Key(), short(is.it.Value()), is.list[is.pos].K, short(is.list[is.pos].V))}
		}
		if err := is.it.Error(); err != nil {
			return &Failure{What: fmt.Sprintf("pinned iterator error %v", err)}
		}
	}
	return nil
}

// RunResult summarises one program run.
type RunResult struct {
	Failure *Failure
	Stats   map[string]int
	Wf      []string
	Panic   string
	Hung    bool
}

// Run executes the whole program with a watchdog; the DB is closed at the end.
func Run(p *Program, hooks Hooks, checkWf bool, keepLog bool) (res RunResult, runner *Runner) {
	return RunWith(p, hooks, checkWf, keepLog, nil)
}

// RunWith is Run with a configuration callback applied to the runner before the DB is opened.
func RunWith(p *Program, hooks Hooks, checkWf bool, keepLog bool, setup func(*Runner)) (res RunResult, runner *Runner) {
	r, _ := NewRunner(p, keepLog)
	if setup != nil {
		setup(r)
	}
	r.Hooks = hooks
	r.CheckWf = checkWf
	runner = r
	done := make(chan struct{})
	go func() {
		defer close(done)
		defer func() {
			if x := recover(); x != nil {
				res.Panic = fmt.Sprintf("%v\n%s", x, debug.Stack())
			}
		}()
		if err := r.Open(); err != nil {
			res.Failure = &Failure{OpIndex: -1, What: fmt.Sprintf("Open error %v", err)}
			return
		}
		for i := range p.Ops {
			if f := r.Step(i, &p.Ops[i]); f != nil {
				res.Failure = f
				break
			}
			if hooks.AfterOp != nil {
				hooks.AfterOp(r, i, &p.Ops[i])
			}
			r.mu.Lock()
			nwf := len(r.WfFailures)
			r.mu.Unlock()
			if nwf > 0 {
				break
			}
		}
		if err := r.Close(); err != nil && res.Failure == nil {
			res.Failure = &Failure{OpIndex: len(p.Ops), What: fmt.Sprintf("Close error %v", err)}
		}
	}()
	select {
	case <-done:
		r.Forget()
	case <-time.After(120 * time.Second):
		res.Hung = true
	}
	r.mu.Lock()
	res.Wf = append([]string(nil), r.WfFailures...)
	res.Stats = map[string]int{}
	for k, v := range r.Stats {
		res.Stats[k] = v
	}
	r.mu.Unlock()
	return
}

// Shrink minimises the op list of a failing program by delta debugging (bounded effort).
func Shrink(p *Program, fails func(*Program) bool, budget time.Duration) *Program {
	deadline := time.Now().Add(budget)
	cur := *p
	cur.Ops = append([]Op(nil), p.Ops...)
	chunk := len(cur.Ops) / 2
	for chunk >= 1 && time.Now().Before(deadline) {
		removed := false
		for start := 0; start+chunk <= len(cur.Ops) && time.Now().Before(deadline); {
			cand := cur
			cand.Ops = append(append([]Op(nil), cur.Ops[:start]...), cur.Ops[start+chunk:]...)
			if fails(&cand) {
				cur = cand
				removed = true
			} else {
				start += chunk
			}
		}
		if !removed || chunk == 1 {
			chunk /= 2
		}
	}
	return &cur
}

var _ = vlib.NewRNG
