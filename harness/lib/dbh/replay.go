package dbh

import (
	"encoding/json"
	"fmt"
	"os"
	"time"
)

// LoadProgram reads a replay file written by vlib.Result.Violate (the program is under "case").
func LoadProgram(path string) (*Program, error) {
	b, err := os.ReadFile(path)
	if err != nil {
		return nil, err
	}
	var w struct {
		Case json.RawMessage `json:"case"`
	}
	if err := json.Unmarshal(b, &w); err != nil {
		return nil, err
	}
	raw := w.Case
	if raw == nil {
		raw = b
	}
	p := &Program{}
	if err := json.Unmarshal(raw, p); err != nil {
		return nil, err
	}
	return p, nil
}

// FailsFn runs a program (tries times, since background timing varies) and reports whether it fails.
func FailsFn(hooks Hooks, checkWf bool, tries int) func(*Program) bool {
	return func(p *Program) bool {
		for i := 0; i < tries; i++ {
			rr, _ := Run(p, hooks, checkWf, false)
			if rr.Failure != nil || rr.Panic != "" || rr.Hung || len(rr.Wf) > 0 {
				return true
			}
		}
		return false
	}
}

// Describe renders a run result's failure.
func Describe(rr RunResult) string {
	switch {
	case rr.Failure != nil:
		return rr.Failure.Error()
	case rr.Panic != "":
		s := rr.Panic
		if len(s) > 1500 {
			s = s[:1500]
		}
		return "panic: " + s
	case rr.Hung:
		return "program did not finish within the watchdog time"
	case len(rr.Wf) > 0:
		return "version not well-formed: " + rr.Wf[0]
	}
	return ""
}

// ShrinkAndDescribe shrinks a failing program within the budget and returns it with its failure text.
func ShrinkAndDescribe(p *Program, hooks Hooks, checkWf bool, budget time.Duration) (*Program, string) {
	q := Shrink(p, FailsFn(hooks, checkWf, 2), budget)
	rr, _ := Run(q, hooks, checkWf, false)
	d := Describe(rr)
	if d == "" {
		rr, _ = Run(q, hooks, checkWf, false)
		d = Describe(rr)
	}
	if d == "" {
		return p, ""
	}
	return q, fmt.Sprintf("%s [%d ops after shrinking; %s]", d, len(q.Ops), q.Cfg.String())
}
