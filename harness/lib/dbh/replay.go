package dbh

import (
	"encoding/json"
	"fmt"
	"os"
	"time"
)

// LoadProgram reads a replay file written by vlib.Result.Violate (the program is under "case").
func LoadProgram(path string) (*Program, error) {
	b, err := os.ReadFile(path)
	if err != nil {
		return nil, err
	}
	var w struct {
		Case json.RawMessage `json:"case"`
	}
	if err := json.Unmarshal(b, &w); err != nil {
		return nil, err
	}
	raw := w.Case
	if raw == nil {
		raw = b
	}
	p := &Program{}
	if err := json.Unmarshal(raw, p); err != nil {
		return nil, err
	}
	return p, nil
}

// FailsFn runs a program (tries times, since background timing varies) and reports whether it fails.
func FailsFn(hooks Hooks, checkWf bool, tries int) func(*Program) bool {
	return func(p *Program) bool {
		for i := 0; i < tries; i++ {
			rr, _ := Run(p, hooks, checkWf, false)
			if rr.Failure != nil || rr.Panic != "" || rr.Hung || len(rr.Wf) > 0 {
				return true
			}
		}
		return false
	}
}

// Describe renders a run result's failure.
func Describe(rr RunResult) string {
	switch {
	case rr.Failure != nil:
		return rr.Failure.Error()
	case rr.Panic != "":
		s := rr.Panic
		if len(s) > 1500 {
			s = s[:1500]
		}
		return "panic: " + s
	case rr.Hung:
		return "program did not finish within the watchdog time"
	case len(rr.Wf) > 0:
		return "version not well-formed: " + rr.Wf[0]
	}
	return ""
}

// ShrinkAndDescribe shrinks a failing program within the budget and returns it with its failure text.
func ShrinkAndDescribe(p *Program, hooks Hooks, checkWf bool, budget time.Duration) (*Program, string) {
	q := Shrink(p, FailsFn(hooks, checkWf, 2), budget)
	q = Stabilise(q, hooks, checkWf)
	rr, _ := Run(q, hooks, checkWf, false)
	d := Describe(rr)
	if d == "" {
		rr, _ = Run(q, hooks, checkWf, false)
		d = Describe(rr)
	}
	if d == "" {
		return p, ""
	}
	return q, fmt.Sprintf("%s [%d ops after shrinking; %s]", d, len(q.Ops), q.Cfg.String())
}

// failsEvery reports whether the program fails in each of n runs.
func failsEvery(p *Program, hooks Hooks, checkWf bool, n int) bool {
	one := FailsFn(hooks, checkWf, 1)
	for i := 0; i < n; i++ {
		if !one(p) {
			return false
		}
	}
	return true
}

// Stabilise makes a shrunk failing program replay reliably when its failure depends on background timing (typically:
// a table compaction must have finished before the read that shows the wrong answer).  If the program does not fail
// in each of three runs, its SETTLED twin (a wait-for-idle after every write, CompactRange and commit) is tried; when
// that fails in each of three runs it is returned instead.  Otherwise the program is returned unchanged.
func Stabilise(q *Program, hooks Hooks, checkWf bool) *Program {
	if failsEvery(q, hooks, checkWf, 3) {
		return q
	}
	st := *q
	st.Ops = nil
	for _, op := range q.Ops {
		st.Ops = append(st.Ops, op)
		switch op.Kind {
		case OpPut, OpDelete, OpBatch, OpCompact, OpTxnCommit, OpReopen:
			st.Ops = append(st.Ops, Op{Kind: OpWaitIdle})
		}
	}
	if failsEvery(&st, hooks, checkWf, 3) {
		return &st
	}
	return q
}
