package dbh

import (
	"bytes"
	"encoding/hex"
	"encoding/json"
	"fmt"

	"verifharness/lib/vlib"
)

// HexBytes marshals as a hex string.
type HexBytes []byte

func (h HexBytes) MarshalJSON() ([]byte, error) { return json.Marshal(hex.EncodeToString(h)) }
func (h *HexBytes) UnmarshalJSON(b []byte) error {
	var s string
	if err := json.Unmarshal(b, &s); err != nil {
		return err
	}
	d, err := hex.DecodeString(s)
	*h = d
	return err
}

// OpKind of a DB program.
type OpKind string

const (
	OpPut         OpKind = "put"
	OpDelete      OpKind = "del"
	OpBatch       OpKind = "batch"
	OpGet         OpKind = "get"
	OpHas         OpKind = "has"
	OpScan        OpKind = "scan" // full iteration forward + backward over [K, K2) (nil = open)
	OpSnap        OpKind = "snap" // acquire snapshot
	OpSnapRead    OpKind = "snapread"
	OpSnapRelease OpKind = "snaprel"
	OpIterOpen    OpKind = "iteropen" // long-lived iterator
	OpIterStep    OpKind = "iterstep"
	OpIterClose   OpKind = "iterclose"
	OpCompact     OpKind = "compact" // CompactRange [K, K2)
	OpReopen      OpKind = "reopen"
	OpWaitIdle    OpKind = "idle"
	OpTxnOpen     OpKind = "txnopen"
	OpTxnPut      OpKind = "txnput"
	OpTxnDel      OpKind = "txndel"
	OpTxnBatch    OpKind = "txnbatch"
	OpTxnGet      OpKind = "txnget"
	OpTxnScan     OpKind = "txnscan"
	OpTxnCommit   OpKind = "txncommit"
	OpTxnDiscard  OpKind = "txndiscard"
	OpCheckAll    OpKind = "checkall" // Get/Has of every pool key + a full scan against the oracle
)

// Rec is one record of a batch.
type Rec struct {
	Del bool     `json:"del,omitempty"`
	K   HexBytes `json:"k"`
	V   HexBytes `json:"v,omitempty"`
}

// Op is one operation of a DB program.
type Op struct {
	Kind  OpKind   `json:"op"`
	K     HexBytes `json:"k,omitempty"`
	K2    HexBytes `json:"k2,omitempty"`
	HasK  bool     `json:"hask,omitempty"`  // K is a real bound (vs nil)
	HasK2 bool     `json:"hask2,omitempty"` // K2 is a real bound (vs nil)
	V     HexBytes `json:"v,omitempty"`
	Recs  []Rec    `json:"recs,omitempty"`
	Sync  bool     `json:"sync,omitempty"`
	I     int      `json:"i,omitempty"` // index of snapshot / iterator (modulo live count), step count
}

// Program is a replayable case.
type Program struct {
	Seed uint64     `json:"seed"`
	Cfg  Cfg        `json:"cfg"`
	Pool []HexBytes `json:"pool"`
	Ops  []Op       `json:"ops"`
}

func (p *Program) JSON() []byte {
	b, _ := json.Marshal(p)
	return b
}

// Weights of the op mix.
type Weights struct {
	Put, Delete, Batch, BigBatch, Get, Has, Scan, Snap, SnapRead, SnapRelease, IterOpen, IterStep, IterClose,
	Compact, Reopen, WaitIdle, Txn, CheckAll int
}

// DefaultWeights is the mix of DESIGN.md §3.6.
func DefaultWeights() Weights {
	return Weights{Put: 40, Delete: 15, Batch: 8, BigBatch: 2, Get: 10, Has: 5, Scan: 4, Snap: 3, SnapRead: 4, SnapRelease: 2,
		IterOpen: 1, IterStep: 3, IterClose: 1, Compact: 3, Reopen: 2, WaitIdle: 2, Txn: 2, CheckAll: 3}
}

// GenPool builds a key pool: small alphabet, long shared prefixes, the empty key, 0x00/0xff runs, keys that
// are prefixes of each other.
func GenPool(r *vlib.RNG, n int, long bool) [][]byte {
	var pool [][]byte
	seen := map[string]bool{}
	add := func(k []byte) {
		if !seen[string(k)] {
			seen[string(k)] = true
			pool = append(pool, k)
		}
	}
	alpha := []byte{0x00, 0x01, 'a', 'b', 'c', 0x54, 0x55, 0x56, 0xfe, 0xff}
	prefixes := [][]byte{{}, []byte("k"), []byte("key-"), bytes.Repeat([]byte{0xff}, 3), bytes.Repeat([]byte{0x00}, 2), []byte("aaaaaaaaaaaaaaaa")}
	if r.Chance(2, 3) {
		add([]byte{})
	}
	for len(pool) < n {
		switch r.Pick(4, 3, 2, 2, 2) {
		case 0:
			p := prefixes[r.Intn(len(prefixes))]
			add(append(append([]byte{}, p...), r.Bytes(r.Range(0, 4), alpha)...))
		case 1: // extension or prefix of an existing key
			if len(pool) > 0 {
				k := pool[r.Intn(len(pool))]
				if r.Bool() {
					add(append(append([]byte{}, k...), r.Bytes(r.Range(1, 3), alpha)...))
				} else {
					add(append([]byte{}, k[:r.Intn(len(k)+1)]...))
				}
			}
		case 2:
			add(bytes.Repeat([]byte{[]byte{0x00, 0xff}[r.Intn(2)]}, r.Range(1, 6)))
		case 3:
			add(r.Bytes(r.Range(1, 8), nil))
		case 4:
			if long {
				add(r.Bytes(r.Range(40, 300), alpha))
			} else {
				add([]byte(fmt.Sprintf("k%04d", r.Intn(10000))))
			}
		}
	}
	return pool
}

// GenValue draws a value; sizes: empty, short, around the block size, above the write buffer, and sizes that
// make len(key)+8+len(value) divide the write buffer exactly.
func GenValue(r *vlib.RNG, c Cfg, key []byte, tag uint64) []byte {
	var n int
	switch r.Pick(2, 10, 3, 2, 1, 2) {
	case 0:
		n = 0
	case 1:
		n = r.Range(1, 24)
	case 2:
		n = c.BlockSize + r.Range(-9, 9)
	case 3:
		n = r.Range(100, 700)
	case 4:
		n = c.WriteBuffer + r.Range(1, 64)
		if n > 20000 {
			n = 20000
		}
	case 5: // entry size divides the write buffer exactly
		div := pickInt(r, 4, 8, 16)
		n = c.WriteBuffer/div - len(key) - 8
	}
	if n < 0 {
		n = 0
	}
	v := make([]byte, n)
	// recognisable content: tag then a repeating pattern (compressible on purpose for snappy)
	s := fmt.Sprintf("%d:", tag)
	for i := range v {
		if i < len(s) {
			v[i] = s[i]
		} else {
			v[i] = byte('a' + (i*7+int(tag))%23)
		}
	}
	return v
}

// GenProgram generates a program of n ops over a pool.
func GenProgram(r *vlib.RNG, cfg Cfg, pool [][]byte, n int, w Weights) *Program {
	p := &Program{Cfg: cfg}
	for _, k := range pool {
		p.Pool = append(p.Pool, k)
	}
	var tag uint64
	key := func() []byte { return pool[r.Intn(len(pool))] }
	bound := func() ([]byte, bool) {
		switch r.Intn(4) {
		case 0:
			return nil, false
		case 1: // between / outside stored keys
			k := append([]byte{}, key()...)
			return append(k, byte(r.Intn(3))), true
		default:
			return key(), true
		}
	}
	inTxn := false
	txnLeft := 0
	nsnap, niter := 0, 0
	for len(p.Ops) < n {
		if inTxn {
			txnLeft--
			if txnLeft <= 0 {
				if r.Chance(2, 3) {
					p.Ops = append(p.Ops, Op{Kind: OpTxnCommit})
				} else {
					p.Ops = append(p.Ops, Op{Kind: OpTxnDiscard})
				}
				inTxn = false
				continue
			}
			switch r.Pick(6, 2, 2, 3, 1) {
			case 0:
				k := key()
				tag++
				p.Ops = append(p.Ops, Op{Kind: OpTxnPut, K: k, V: GenValue(r, cfg, k, tag)})
			case 1:
				p.Ops = append(p.Ops, Op{Kind: OpTxnDel, K: key()})
			case 2:
				var recs []Rec
				for i, m := 0, r.Range(1, 12); i < m; i++ {
					k := key()
					tag++
					if r.Chance(1, 4) {
						recs = append(recs, Rec{Del: true, K: k})
					} else {
						recs = append(recs, Rec{K: k, V: GenValue(r, cfg, k, tag)})
					}
				}
				p.Ops = append(p.Ops, Op{Kind: OpTxnBatch, Recs: recs})
			case 3:
				p.Ops = append(p.Ops, Op{Kind: OpTxnGet, K: key()})
			case 4:
				p.Ops = append(p.Ops, Op{Kind: OpTxnScan})
			}
			// reads from outside while the transaction is open
			if r.Chance(1, 3) {
				p.Ops = append(p.Ops, Op{Kind: OpGet, K: key()})
			}
			continue
		}
		switch r.Pick(w.Put, w.Delete, w.Batch, w.BigBatch, w.Get, w.Has, w.Scan, w.Snap, w.SnapRead, w.SnapRelease,
			w.IterOpen, w.IterStep, w.IterClose, w.Compact, w.Reopen, w.WaitIdle, w.Txn, w.CheckAll) {
		case 0:
			k := key()
			tag++
			p.Ops = append(p.Ops, Op{Kind: OpPut, K: k, V: GenValue(r, cfg, k, tag), Sync: r.Chance(1, 3)})
		case 1:
			p.Ops = append(p.Ops, Op{Kind: OpDelete, K: key(), Sync: r.Chance(1, 3)})
		case 2:
			var recs []Rec
			for i, m := 0, r.Range(0, 10); i < m; i++ {
				k := key()
				tag++
				if r.Chance(1, 4) {
					recs = append(recs, Rec{Del: true, K: k})
				} else {
					recs = append(recs, Rec{K: k, V: GenValue(r, cfg, k, tag)})
				}
			}
			p.Ops = append(p.Ops, Op{Kind: OpBatch, Recs: recs, Sync: r.Chance(1, 3)})
		case 3: // batch larger than the write buffer (routed through a transaction unless disabled)
			var recs []Rec
			total := 0
			for total <= cfg.WriteBuffer+64 && len(recs) < 400 {
				k := key()
				tag++
				v := GenValue(r, cfg, k, tag)
				if len(v) < 40 {
					v = append(v, bytes.Repeat([]byte{'p'}, 120)...)
				}
				recs = append(recs, Rec{K: k, V: v})
				total += len(k) + len(v) + 8
			}
			p.Ops = append(p.Ops, Op{Kind: OpBatch, Recs: recs, Sync: r.Chance(1, 3)})
		case 4:
			k := key()
			if r.Chance(1, 5) {
				k = append(append([]byte{}, k...), 0x7)
			}
			p.Ops = append(p.Ops, Op{Kind: OpGet, K: k})
		case 5:
			p.Ops = append(p.Ops, Op{Kind: OpHas, K: key()})
		case 6:
			a, ha := bound()
			b, hb := bound()
			p.Ops = append(p.Ops, Op{Kind: OpScan, K: a, HasK: ha, K2: b, HasK2: hb})
		case 7:
			if nsnap < 12 {
				p.Ops = append(p.Ops, Op{Kind: OpSnap})
				nsnap++
			}
		case 8:
			if nsnap > 0 {
				p.Ops = append(p.Ops, Op{Kind: OpSnapRead, I: r.Intn(64)})
			}
		case 9:
			if nsnap > 0 {
				p.Ops = append(p.Ops, Op{Kind: OpSnapRelease, I: r.Intn(64)})
				nsnap--
			}
		case 10:
			if niter < 4 {
				a, ha := bound()
				b, hb := bound()
				p.Ops = append(p.Ops, Op{Kind: OpIterOpen, K: a, HasK: ha, K2: b, HasK2: hb})
				niter++
			}
		case 11:
			if niter > 0 {
				p.Ops = append(p.Ops, Op{Kind: OpIterStep, I: r.Intn(1 << 16)})
			}
		case 12:
			if niter > 0 {
				p.Ops = append(p.Ops, Op{Kind: OpIterClose, I: r.Intn(64)})
				niter--
			}
		case 13:
			a, ha := bound()
			b, hb := bound()
			if r.Chance(1, 2) {
				ha, hb = false, false
			}
			p.Ops = append(p.Ops, Op{Kind: OpCompact, K: a, HasK: ha, K2: b, HasK2: hb})
		case 14:
			p.Ops = append(p.Ops, Op{Kind: OpReopen})
			nsnap, niter = 0, 0
		case 15:
			p.Ops = append(p.Ops, Op{Kind: OpWaitIdle})
		case 16:
			p.Ops = append(p.Ops, Op{Kind: OpTxnOpen})
			inTxn = true
			txnLeft = r.Range(1, 40)
		case 17:
			p.Ops = append(p.Ops, Op{Kind: OpCheckAll})
		}
	}
	if inTxn {
		p.Ops = append(p.Ops, Op{Kind: OpTxnCommit})
	}
	p.Ops = append(p.Ops, Op{Kind: OpCheckAll})
	return p
}
