package dbh

import (
	"bytes"
	"encoding/json"
	"fmt"
	"os"
	"sort"
	"strings"
	"sync"
	"time"

	"github.com/syndtr/goleveldb/leveldb"
	"github.com/syndtr/goleveldb/leveldb/comparer"
	"github.com/syndtr/goleveldb/leveldb/opt"
	"github.com/syndtr/goleveldb/leveldb/util"
	"verifharness/lib/vlib"
)

// The LOOPS that drive table compactions (model Lsm/RangeCompact.v, evaluated by Corr/C06Run.v):
//   KRange  one observed run of tableRangeCompaction's retry loop (DB.CompactRange) — passes, inputs, installed outputs;
//   KScore  version.computeCompaction on a pinned version (at quiescent points: need_compaction must be false);
//   KAuto   one observed session.pickCompaction (score / compaction pointer / seek choice);
// the (P) oracles: CompactRange returns (watchdog), afterwards every table overlapping the range sits in ONE level >= 1,
// background compaction goes idle (watchdog), reads are unchanged; and the directed scenarios with tiny limits.

// KnownFlatLimits is the id of the known finding (known_findings_C06.txt) reproduced by the directed scenario.
const KnownFlatLimits = "flat-level-limits-endless-moves"

// LoopCol gathers the loop cases of all runs (safe for concurrent runs).
type LoopCol struct {
	mu    sync.Mutex
	Caps  map[string]int
	cands map[string][]KCand
}

func NewLoopCol(caps map[string]int) *LoopCol { return &LoopCol{Caps: caps, cands: map[string][]KCand{}} }

func (c *LoopCol) Add(k KCand) {
	if c == nil || len(k.Text) > 40000 {
		return
	}
	c.mu.Lock()
	defer c.mu.Unlock()
	key := k.Kind
	lim := 3 * c.Caps[k.Kind]
	if k.Hot {
		key += "!"
		lim *= 2
	}
	if len(c.cands[key]) < lim {
		c.cands[key] = append(c.cands[key], k)
	}
}

// Select returns the chosen cases (hot ones first, thinned evenly down to the caps) and their counters.
func (c *LoopCol) Select() (cases []string, counts map[string]int) {
	c.mu.Lock()
	defer c.mu.Unlock()
	counts = map[string]int{}
	for _, kind := range []string{"range", "score", "auto"} {
		n := c.Caps[kind]
		nHot := len(c.cands[kind+"!"])
		if nHot > n*2/3 {
			nHot = n * 2 / 3
			if n-len(c.cands[kind]) > nHot {
				nHot = n - len(c.cands[kind])
			}
		}
		hot := thin(c.cands[kind+"!"], nHot)
		rest := thin(c.cands[kind], n-len(hot))
		for _, k := range append(hot, rest...) {
			cases = append(cases, k.Text)
			for _, t := range k.Tags {
				counts[t]++
			}
		}
	}
	return
}

// Interleave deals extra (largest first, snake order) into the shards consecutive equal cuts of base, so that the case
// files (consecutive shards of the returned list) grow by about the same amount of text.
func Interleave(base, extra []string, shards int) []string {
	if len(extra) == 0 {
		return base
	}
	if shards < 1 {
		shards = 1
	}
	sort.SliceStable(extra, func(i, j int) bool { return len(extra[i]) > len(extra[j]) })
	bins := make([][]string, shards)
	for i, e := range extra {
		b := i % shards
		if (i/shards)%2 == 1 {
			b = shards - 1 - b
		}
		bins[b] = append(bins[b], e)
	}
	per := (len(base) + shards - 1) / shards
	out := make([]string, 0, len(base)+len(extra))
	for b := 0; b < shards; b++ {
		lo, hi := b*per, (b+1)*per
		if lo > len(base) {
			lo = len(base)
		}
		if hi > len(base) {
			hi = len(base)
		}
		out = append(out, base[lo:hi]...)
		out = append(out, bins[b]...)
	}
	return out
}

func kOptEntry(ik []byte) string {
	if ik == nil {
		return "None"
	}
	s, ok := kBound(ik)
	if !ok {
		return "None"
	}
	return "(Some " + s + ")"
}

func kPtrs(ptrs [][]byte) string {
	items := make([]string, len(ptrs))
	for i, p := range ptrs {
		items[i] = kOptEntry(p)
	}
	return "[" + strings.Join(items, "; ") + "]"
}

func kZ(n int64) string { return fmt.Sprintf("(%d)%%Z", n) }

func kZList(ns []int64) string {
	items := make([]string, len(ns))
	for i, n := range ns {
		items[i] = kZ(n)
	}
	return "[" + strings.Join(items, "; ") + "]"
}

func numsOf(ver []leveldb.VerifTable) map[int64]int {
	m := map[int64]int{}
	for _, t := range ver {
		m[t.Num] = t.Level
	}
	return m
}

func totLimits(o *opt.Options, nl int) []int64 {
	out := make([]int64, nl)
	for l := range out {
		out[l] = o.GetCompactionTotalSize(l)
	}
	return out
}

// RenderKRange renders one observed run of the retry loop; ok = false when it cannot be rendered faithfully (too big,
// unparsable bounds, or the versions between the compactions differ by more than the compaction — e.g. a flush).
func RenderKRange(cid int, o *opt.Options, vr *leveldb.VerifRange) (text string, tags []string, ok bool) {
	if vr == nil || !vr.Done || len(vr.V0) > MaxKTables || len(vr.V1) > MaxKTables {
		return "", nil, false
	}
	type flat struct {
		pass int
		c    *leveldb.VerifRangeComp
	}
	var comps []flat
	for i := range vr.Passes {
		for j := range vr.Passes[i].Comps {
			comps = append(comps, flat{i, &vr.Passes[i].Comps[j]})
		}
	}
	if len(comps) > 24 {
		return "", nil, false
	}
	nl := numLevels(vr.V0)
	if n := numLevels(vr.V1); n > nl {
		nl = n
	}
	outsOf := make([][]leveldb.VerifTable, len(comps))
	prev := vr.V0
	for g, fc := range comps {
		if len(fc.c.Version) > MaxKTables {
			return "", nil, false
		}
		if n := numLevels(fc.c.Version); n > nl {
			nl = n
		}
		// the version the compaction was built on must be the one the previous step left
		a, b := numsOf(prev), numsOf(fc.c.Version)
		if len(a) != len(b) {
			return "", nil, false
		}
		for n, l := range a {
			if l2, found := b[n]; !found || l2 != l {
				return "", nil, false
			}
		}
		next := vr.V1
		if g+1 < len(comps) {
			next = comps[g+1].c.Version
		}
		in := map[int64]bool{}
		for _, n := range fc.c.T0 {
			in[n] = true
		}
		for _, n := range fc.c.T1 {
			in[n] = true
		}
		nn := numsOf(next)
		for n := range b {
			if _, still := nn[n]; !still && !in[n] {
				return "", nil, false
			}
		}
		for _, t := range next {
			if l, old := b[t.Num]; old {
				if in[t.Num] || l != t.Level {
					return "", nil, false
				}
				continue
			}
			if t.Level != fc.c.Level+1 {
				return "", nil, false
			}
			outsOf[g] = append(outsOf[g], t)
		}
		prev = next
	}
	if len(comps) == 0 {
		a, b := numsOf(vr.V0), numsOf(vr.V1)
		if len(a) != len(b) {
			return "", nil, false
		}
		for n, l := range a {
			if l2, found := b[n]; !found || l2 != l {
				return "", nil, false
			}
		}
	}
	v0, ok0 := KMetaLevels(vr.V0)
	if !ok0 {
		return "", nil, false
	}
	var srcl, expl []int64
	for l := 0; l < nl+2; l++ {
		srcl = append(srcl, int64(o.GetCompactionSourceLimit(l)))
		expl = append(expl, int64(o.GetCompactionExpandLimit(l)))
	}
	passes := make([]string, len(vr.Passes))
	g := 0
	compacting, multi, cut := 0, false, false
	for i, p := range vr.Passes {
		items := make([]string, len(p.Comps))
		for j, c := range p.Comps {
			outs, ok1 := KMetaList(outsOf[g])
			if !ok1 {
				return "", nil, false
			}
			items[j] = fmt.Sprintf("KC %d %s %s %s", c.Level, KNums(c.T0), KNums(c.T1), outs)
			// did the source limit cut the seed? more tables of the level overlap the range than were taken
			if c.Level > 0 && i+1 < len(vr.Passes) {
				for _, c2 := range vr.Passes[i+1].Comps {
					if c2.Level == c.Level {
						cut = true
					}
				}
			}
			g++
		}
		if len(p.Comps) > 0 {
			compacting++
		}
		if len(p.Comps) > 1 {
			multi = true
		}
		passes[i] = fmt.Sprintf("(%d, [%s])", p.M, strings.Join(items, "; "))
	}
	tags = []string{"k_range"}
	switch {
	case compacting == 0:
		tags = append(tags, "k_range_nothing_to_compact")
	case compacting == 1:
		tags = append(tags, "k_range_one_compacting_pass")
	default:
		tags = append(tags, "k_range_several_compacting_passes")
	}
	if multi {
		tags = append(tags, "k_range_pass_with_several_levels")
	}
	if cut {
		tags = append(tags, "k_range_same_level_again_in_next_pass")
	}
	if vr.Umin == nil || vr.Umax == nil {
		tags = append(tags, "k_range_nil_bound")
	}
	text = fmt.Sprintf("KRange %d %s %s %s %s %s %s [%s] %s %s", cid, v0, kOptHex(vr.Umin), kOptHex(vr.Umax), KNums(srcl), KNums(expl),
		kPtrs(vr.Ptrs0), strings.Join(passes, "; "), KLayout(vr.V1), kPtrs(vr.Ptrs1))
	return text, tags, true
}

// RenderKScore renders computeCompaction's result on a pinned version.
func RenderKScore(o *opt.Options, ver []leveldb.VerifTable, cLevel int, cScore float64, idle bool) (string, bool) {
	if len(ver) > MaxKTables {
		return "", false
	}
	v, ok := KMetaLevels(ver)
	if !ok {
		return "", false
	}
	nl := numLevels(ver)
	return fmt.Sprintf("KScore %s %s %s %s %s %s %s", v, kZ(int64(o.GetCompactionL0Trigger())), kZ(int64(o.GetWriteL0PauseTrigger())),
		kZList(totLimits(o, nl+1)), kZ(int64(cLevel)), vlib.CoqBool(cScore >= 1), vlib.CoqBool(idle)), true
}

// RenderKAuto renders one choice of pickCompaction.
func RenderKAuto(cid int, o *opt.Options, a *leveldb.VerifAuto) (string, []string, bool) {
	if a == nil || len(a.Version) > MaxKTables || len(a.Seed) != 1 {
		return "", nil, false
	}
	v, ok := KMetaLevels(a.Version)
	if !ok {
		return "", nil, false
	}
	seek := "None"
	if a.Seek {
		seek = fmt.Sprintf("(Some (%d, %d))", a.SeekLevel, a.SeekNum)
	}
	tags := []string{"k_auto", fmt.Sprintf("k_auto_typ_%d", a.Typ)}
	if a.SourceLevel > 0 && a.SourceLevel < len(a.Ptrs) && a.Ptrs[a.SourceLevel] != nil && a.Typ != 2 {
		tags = append(tags, "k_auto_pointer_consulted")
		lv := levelOf(a.Version, a.SourceLevel)
		if len(lv) > 0 && lv[0].Num != a.Seed[0] {
			tags = append(tags, "k_auto_pointer_moved_the_seed")
		}
	}
	nl := numLevels(a.Version)
	return fmt.Sprintf("KAuto %d %s %s %s %s %s %d %d %d", cid, v, kPtrs(a.Ptrs), seek, kZ(int64(o.GetCompactionL0Trigger())),
		kZList(totLimits(o, nl+1)), a.SourceLevel, a.Seed[0], a.Typ), tags, true
}

func tableOverlaps(cmp comparer.Comparer, t leveldb.VerifTable, umin, umax []byte) bool {
	lo, hi, ok := ukeysOf(t)
	if !ok {
		return false
	}
	return !(umin != nil && cmp.Compare(umin, hi) > 0) && !(umax != nil && cmp.Compare(umax, lo) < 0)
}

// RangePost is the (P) oracle on the version the retry loop ended with: every table overlapping the range sits in one
// level, and that level is not level 0.  It returns a failure text or "".
func RangePost(cmp comparer.Comparer, ver []leveldb.VerifTable, umin, umax []byte) string {
	if (umin != nil && len(umin) == 0) || (umax != nil && len(umax) == 0) {
		return "" // tFiles.overlaps reads an empty lower bound as "no bound"; not judged here
	}
	levels := map[int]int64{}
	for _, t := range ver {
		if tableOverlaps(cmp, t, umin, umax) {
			levels[t.Level] = t.Num
		}
	}
	if len(levels) == 0 {
		return ""
	}
	deepest := 0
	for l := range levels {
		if l > deepest {
			deepest = l
		}
	}
	for l, n := range levels {
		if l < deepest || l == 0 {
			return fmt.Sprintf("after CompactRange [%x, %x] returned, table %d of level %d still overlaps the range although level %d holds overlapping tables too (levels with overlapping tables: %v)",
				umin, umax, n, l, deepest, levels)
		}
	}
	return ""
}

// LoopHooks wraps hooks with the loop oracles and the collection of loop cases for runs of generated programs.
func LoopHooks(h Hooks, lc *LoopCol, collect bool) Hooks {
	origEdit, origOp := h.OnEdit, h.AfterOp
	nAuto, nAutoHot, nRange, nScore := 0, 0, 0, 0
	h.OnEdit = func(r *Runner, e leveldb.VerifEdit) {
		if origEdit != nil {
			origEdit(r, e)
		}
		if len(e.Deleted) == 0 {
			return
		}
		a := leveldb.VerifTakeAuto(e.Stor)
		if a == nil || !collect {
			return
		}
		r.Stats["auto_picks_observed"]++
		if c, tags, ok := RenderKAuto(r.Prog.Cfg.CmpID, r.Opts, a); ok {
			hot := len(tags) > 2
			if (hot && nAutoHot < 6) || (!hot && nAuto < 2) {
				lc.Add(KCand{Kind: "auto", Hot: hot, Tags: tags, Text: c})
				if hot {
					nAutoHot++
				} else {
					nAuto++
				}
			}
		}
	}
	h.AfterOp = func(r *Runner, i int, op *Op) {
		if origOp != nil {
			origOp(r, i, op)
		}
		if r.DB == nil {
			return
		}
		if op.Kind == OpCompact && r.Txn == nil {
			vr := leveldb.VerifTakeRange(r.Stor)
			if vr != nil && vr.Done {
				r.mu.Lock()
				r.Stats["range_loops_observed"]++
				if msg := RangePost(r.Cmp, vr.V1, vr.Umin, vr.Umax); msg != "" {
					r.WfFailures = append(r.WfFailures, msg)
				}
				r.mu.Unlock()
				if collect && nRange < 3 {
					if c, tags, ok := RenderKRange(r.Prog.Cfg.CmpID, r.Opts, vr); ok {
						hot := false
						for _, t := range tags {
							if t == "k_range_several_compacting_passes" || t == "k_range_pass_with_several_levels" {
								hot = true
							}
						}
						lc.Add(KCand{Kind: "range", Hot: hot, Tags: tags, Text: c})
						nRange++
					}
				}
			}
		}
		if collect && r.Txn == nil && (op.Kind == OpWaitIdle || (i%9 == 4 && nScore < 3)) {
			ver, cl, cs, _, need := leveldb.VerifScore(r.DB)
			idle := op.Kind == OpWaitIdle && !need
			if c, ok := RenderKScore(r.Opts, ver, cl, cs, idle); ok {
				tags := []string{"k_score"}
				if idle {
					tags = append(tags, "k_score_quiescent")
				}
				if cs >= 1 {
					tags = append(tags, "k_score_needs_compaction")
				}
				lc.Add(KCand{Kind: "score", Hot: idle || cs >= 1, Tags: tags, Text: c})
				nScore++
			}
		}
	}
	return h
}

// ---- directed scenarios: tiny limits, large tables, range compactions and quiescence under a watchdog ----

// LoopSpec names one scenario; everything is derived from the seed.
type LoopSpec struct {
	LoopSeed uint64 `json:"loop_seed"`
	Flat     bool   `json:"flat_limits"` // the known-finding shape: CompactionTotalSizeMultiplier 1 and a table above CompactionTotalSize
}

func LoadLoopSpec(path string) (*LoopSpec, bool) {
	b, err := os.ReadFile(path)
	if err != nil {
		return nil, false
	}
	var w struct {
		Case json.RawMessage `json:"case"`
	}
	if json.Unmarshal(b, &w) == nil && w.Case != nil {
		b = w.Case
	}
	var raw map[string]json.RawMessage
	if json.Unmarshal(b, &raw) != nil {
		return nil, false
	}
	if _, ok := raw["loop_seed"]; !ok {
		return nil, false
	}
	var ls LoopSpec
	if json.Unmarshal(b, &ls) != nil {
		return nil, false
	}
	return &ls, true
}

// LoopResult is the outcome of one scenario.
type LoopResult struct {
	Failure string
	Known   string // id of the known finding the failure is an instance of ("" = a plain violation)
	Hang    bool
	Stats   map[string]int
}

func loopCfg(r *vlib.RNG, flat bool) (Cfg, func(o *opt.Options)) {
	c := Cfg{
		WriteBuffer:     pickInt(r, 1024, 2048, 4096),
		TableSize:       pickInt(r, 256, 512, 1024, 2048),
		TotalSize:       pickInt(r, 2048, 4096, 8192),
		L0Trigger:       pickInt(r, 1, 2, 4),
		BlockSize:       pickInt(r, 64, 256, 1024),
		RestartInterval: pickInt(r, 1, 4, 16),
		BlockCache:      -1,
		DisableSeeks:    r.Chance(1, 2),
		CmpID:           pickInt(r, 0, 0, 1, 2, 3),
		TableMul:        []float64{0, 0, 2, 0.5}[r.Intn(4)],
	}
	srcFactor := pickInt(r, 1, 1, 1, 2, 3)
	totMul := []float64{10, 2, 2, 1.5, 3}[r.Intn(5)]
	if flat {
		c.TableSize, c.TotalSize, c.WriteBuffer, c.TableMul = 200000, 4096, 16384, 0
		totMul = 1
	}
	return c, func(o *opt.Options) {
		o.CompactionSourceLimitFactor = srcFactor
		o.CompactionTotalSizeMultiplier = totMul
	}
}

// RunLoop runs one scenario: rounds of writes (some values far above the table size), each followed by a range
// compaction and/or a wait for quiescence, both under a watchdog; full scans against a map in between.
func RunLoop(spec LoopSpec, lc *LoopCol, collect bool) (res LoopResult) {
	res.Stats = map[string]int{}
	root := vlib.NewRNG(spec.LoopSeed)
	r := root.Fork()
	cfg, tweak := loopCfg(r, spec.Flat)
	pool := GenPool(r, r.Range(30, 160), false)
	p := &Program{Cfg: cfg, Seed: spec.LoopSeed}
	rn, _ := NewRunner(p, false)
	tweak(rn.Opts)
	rn.CheckWf = true
	rn.Hooks = LoopHooks(Hooks{}, lc, collect)
	leveldb.VerifPickExport(true)
	defer func() {
		leveldb.VerifForgetPick(rn.Stor)
		leveldb.VerifForgetRange(rn.Stor)
		rn.Forget()
	}()
	done := make(chan struct{})
	go func() {
		defer close(done)
		defer func() {
			if x := recover(); x != nil {
				res.Failure = fmt.Sprintf("panic: %v", x)
			}
		}()
		runLoopBody(spec, rn, r, pool, &res, lc, collect)
	}()
	select {
	case <-done:
	case <-time.After(100 * time.Second):
		res.Failure, res.Hang = "scenario did not finish within 100 s", true
	}
	rn.mu.Lock()
	for k, v := range rn.Stats {
		res.Stats[k] += v
	}
	if len(rn.WfFailures) > 0 && res.Failure == "" {
		res.Failure = rn.WfFailures[0]
	}
	rn.mu.Unlock()
	return res
}

const loopCallTimeout = 20 * time.Second

func runLoopBody(spec LoopSpec, rn *Runner, r *vlib.RNG, pool [][]byte, res *LoopResult, lc *LoopCol, collect bool) {
	if err := rn.Open(); err != nil {
		res.Failure = fmt.Sprintf("Open error %v", err)
		return
	}
	closed := false
	closeDB := func() {
		if closed {
			return
		}
		closed = true
		c := make(chan error, 1)
		go func() { c <- rn.Close() }()
		select {
		case <-c:
		case <-time.After(loopCallTimeout):
			if res.Failure == "" {
				res.Failure, res.Hang = fmt.Sprintf("Close did not return within %v", loopCallTimeout), true
			}
		}
	}
	defer closeDB()
	db := rn.DB
	cmp := rn.Cmp
	cid := rn.Prog.Cfg.CmpID
	model := map[string][]byte{}
	fail := func(f string, a ...interface{}) {
		if res.Failure == "" {
			res.Failure = fmt.Sprintf(f, a...)
		}
	}
	scan := func(when string) {
		keys := make([][]byte, 0, len(model))
		for k := range model {
			keys = append(keys, []byte(k))
		}
		sort.Slice(keys, func(i, j int) bool { return cmp.Compare(keys[i], keys[j]) < 0 })
		it := db.NewIterator(nil, nil)
		defer it.Release()
		i := 0
		for it.Next() {
			if i >= len(keys) || !bytes.Equal(it.Key(), keys[i]) || !bytes.Equal(it.Value(), model[string(keys[i])]) {
				fail("%s: scan position %d holds key %x (value of %d bytes); the map holds %d keys there", when, i, it.Key(), len(it.Value()), len(keys))
				return
			}
			i++
		}
		if err := it.Error(); err != nil {
			fail("%s: scan error %v", when, err)
		} else if i != len(keys) {
			fail("%s: scan returned %d pairs, the map holds %d", when, i, len(keys))
		}
	}
	score := func(idle bool) (need bool, levels int) {
		ver, cl, cs, _, need := leveldb.VerifScore(db)
		if collect {
			if c, ok := RenderKScore(rn.Opts, ver, cl, cs, idle && !need); ok {
				tags := []string{"k_score", "k_score_directed"}
				if idle && !need {
					tags = append(tags, "k_score_quiescent")
				}
				if cs >= 1 {
					tags = append(tags, "k_score_needs_compaction")
				}
				lc.Add(KCand{Kind: "score", Hot: true, Tags: tags, Text: c})
			}
		}
		return need, numLevels(ver)
	}
	waitIdle := func(when string) bool {
		timeout := loopCallTimeout
		if spec.Flat {
			timeout = 2 * time.Second
		}
		ok := leveldb.VerifWaitIdle(db, timeout)
		need, l1 := score(ok)
		if need {
			// still work to do after the watchdog period: is it progress towards a fixpoint or an endless descent?
			time.Sleep(300 * time.Millisecond)
			need2, l2 := score(false)
			res.Hang = true
			if spec.Flat && need2 && l2 > l1 {
				res.Known = KnownFlatLimits
			}
			fail("%s: background compaction did not go idle within %v: needCompaction still holds, the version has %d levels and %d levels 300 ms later (CompactionTotalSize %d, multiplier %v, CompactionTableSize %d)",
				when, timeout, l1, l2, rn.Opts.GetCompactionTotalSize(0), rn.Opts.CompactionTotalSizeMultiplier, rn.Opts.GetCompactionTableSize(0))
			return false
		}
		res.Stats["loop_quiescent_points"]++
		return true
	}
	rounds := r.Range(3, 7)
	if spec.Flat {
		rounds = 1
	}
	for round := 0; round < rounds && res.Failure == ""; round++ {
		n := r.Range(20, 160)
		if spec.Flat {
			n = 300
		}
		for i := 0; i < n; i++ {
			k := pool[r.Intn(len(pool))]
			if len(k) == 0 {
				k = []byte{0}
			}
			if r.Chance(1, 6) && !spec.Flat {
				if err := db.Delete(k, nil); err != nil {
					fail("Delete error %v", err)
					return
				}
				delete(model, string(k))
				continue
			}
			vl := r.Range(10, 200)
			if r.Chance(1, 25) && !spec.Flat {
				vl = r.Range(1500, 6000) // one entry far above the table size: a table larger than every limit
			}
			v := r.Bytes(vl, []byte("abcdefgh"))
			if err := db.Put(k, v, nil); err != nil {
				fail("Put error %v", err)
				return
			}
			model[string(k)] = v
		}
		act := r.Pick(3, 2, 2)
		if spec.Flat {
			act = 2
		}
		if act == 0 || act == 2 {
			var rg util.Range
			if !spec.Flat && !r.Chance(1, 5) {
				a, b := pool[r.Intn(len(pool))], pool[r.Intn(len(pool))]
				if cmp.Compare(a, b) > 0 {
					a, b = b, a
				}
				if len(a) > 0 || r.Chance(1, 2) {
					rg.Start = a
				}
				if len(b) > 0 {
					rg.Limit = b
				}
			}
			ch := make(chan error, 1)
			go func() { ch <- db.CompactRange(rg) }()
			select {
			case err := <-ch:
				if err != nil {
					fail("CompactRange error %v", err)
					return
				}
			case <-time.After(loopCallTimeout):
				res.Hang = true
				fail("CompactRange [%x, %x] did not return within %v", rg.Start, rg.Limit, loopCallTimeout)
				return
			}
			res.Stats["loop_range_compactions"]++
			if vr := leveldb.VerifTakeRange(rn.Stor); vr != nil && vr.Done {
				if msg := RangePost(cmp, vr.V1, vr.Umin, vr.Umax); msg != "" {
					fail("%s", msg)
				}
				compacting := 0
				for _, ps := range vr.Passes {
					if len(ps.Comps) > 0 {
						compacting++
					}
				}
				res.Stats[fmt.Sprintf("loop_range_compacting_passes_%d", minInt(compacting, 4))]++
				if collect {
					if c, tags, ok := RenderKRange(cid, rn.Opts, vr); ok {
						lc.Add(KCand{Kind: "range", Hot: compacting >= 2, Tags: append(tags, "k_range_directed"), Text: c})
					} else {
						res.Stats["loop_range_not_rendered"]++
					}
				}
			} else {
				res.Stats["loop_range_not_recorded"]++
			}
			scan("after CompactRange")
		}
		if (act == 1 || act == 2) && res.Failure == "" {
			if !waitIdle(fmt.Sprintf("round %d", round)) {
				return
			}
			scan("at the quiescent point")
		}
	}
}
