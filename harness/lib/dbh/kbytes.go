package dbh

import (
	"bytes"
	"encoding/binary"
	"fmt"
	"strings"

	"github.com/syndtr/goleveldb/leveldb"
	"github.com/syndtr/goleveldb/leveldb/memdb"
	"github.com/syndtr/goleveldb/leveldb/storage"
	"verifharness/lib/vlib"
)

// Byte-level read-path correspondence (property C01, Coq side: Corr/C01BytesRun.v).  A case carries the
// state DB.Get works on, unparsed: the internal arrays of the live and of the frozen memdb, and for every
// table of the pinned version its number, recorded bounds and the BYTES of its file as they sit in the
// storage; plus point reads (key, sequence number) with the answers DB.Get / Snapshot.Get gave.

func coqMemDump(d *memdb.VerifDump) string {
	if d == nil {
		return "None"
	}
	nd := make([]string, len(d.NodeData))
	for i, x := range d.NodeData {
		nd[i] = fmt.Sprintf("%d", x)
	}
	return fmt.Sprintf("(Some (KM %s [%s] %d %d %d))", vlib.CoqHex(d.KvData), strings.Join(nd, ";"), d.MaxHeight, d.N, d.KvSize)
}

// KBytesStats is filled by DumpKBytes for the distribution report.
type KBytesStats struct {
	Tables, Levels, Bytes, Queries, Found int
	Frozen, Filter                        bool
}

// DumpKBytes renders the current state and a set of point reads as one byte-level case.  It returns
// ok = false when the state does not qualify: a transaction is open, tables are snappy-compressed (the table
// model has no snappy decoder), the state is larger than maxBytes, or the capture raced with a flush.
func (r *Runner) DumpKBytes(rnd *vlib.RNG, maxBytes int) (cs string, st KBytesStats, ok bool) {
	// byte-level cases are evaluated with the hypothesis re-checks of the byte-level theorems, which assume an injective
	// comparer (cmp_eq): programs under the non-injective comparer 4 contribute KGet/KCompact/KWf cases only
	if r.DB == nil || r.Txn != nil || r.Prog.Cfg.Snappy || r.Prog.Cfg.CmpID >= 4 {
		return
	}
	v1 := leveldb.VerifDumpVersion(r.DB)
	live, frozen := leveldb.VerifMemDumps(r.DB)
	liveE, frozenE, _ := leveldb.VerifMemEntries(r.DB)
	v2 := leveldb.VerifDumpVersion(r.DB)
	live2, frozen2 := leveldb.VerifMemDumps(r.DB)
	seq := leveldb.VerifSeq(r.DB)
	if len(v1) != len(v2) || (frozen == nil) != (frozen2 == nil) || (live == nil) != (live2 == nil) {
		return
	}
	for i := range v1 {
		if v1[i].Num != v2[i].Num || v1[i].Level != v2[i].Level {
			return
		}
	}
	if live != nil && (live.N != live2.N || len(live.KvData) != len(live2.KvData) || len(liveE) != live.N) {
		return
	}
	if frozen != nil && (frozen.N != frozen2.N || len(frozenE) != frozen.N) {
		return
	}
	total := 0
	if live != nil {
		total += len(live.KvData) + 4*len(live.NodeData)
	}
	if frozen != nil {
		total += len(frozen.KvData) + 4*len(frozen.NodeData)
	}
	nl := 0
	for _, t := range v1 {
		total += int(t.Size)
		if t.Level+1 > nl {
			nl = t.Level + 1
		}
	}
	if total > maxBytes || len(v1) == 0 {
		return
	}
	// the window in which a flushed memdb is still installed as frozen while its table is already in the
	// version (flush committed, dropFrozenMem pending): reads are right but the state is not a strict
	// layout; not captured
	if frozen != nil && len(frozenE) > 0 {
		r.mu.Lock()
		dup := false
		f0 := frozenE[0]
		for _, t := range v1 {
			if t.Level != 0 {
				continue
			}
			for _, e := range r.TableEntries[t.Num] {
				if e.Seq == f0.Seq && bytes.Equal(e.Ukey, f0.Ukey) {
					dup = true
				}
			}
			// the commit hook may not have recorded the new table's entries yet: the flushed table's recorded smallest
			// key IS the frozen buffer's first entry (same user key, same sequence number)
			if n := len(t.Imin); n >= 8 {
				var num uint64
				for b := 0; b < 8; b++ {
					num |= uint64(t.Imin[n-8+b]) << (8 * uint(b))
				}
				if num>>8 == f0.Seq && bytes.Equal(t.Imin[:n-8], f0.Ukey) {
					dup = true
				}
			}
		}
		r.mu.Unlock()
		if dup {
			return
		}
	}
	var lv []string
	for l := 0; l < nl; l++ {
		var ts []string
		for _, t := range v1 {
			if t.Level != l {
				continue
			}
			data, _, fok := r.Stor.FileBytes(storage.FileDesc{Type: storage.TypeTable, Num: t.Num})
			if !fok || int64(len(data)) != t.Size {
				return
			}
			ts = append(ts, fmt.Sprintf("KF %d %s %s %s", t.Num, vlib.CoqHex(t.Imin), vlib.CoqHex(t.Imax), vlib.CoqHex(data)))
		}
		lv = append(lv, "["+strings.Join(ts, "; ")+"]")
	}
	var qs []string
	ask := func(k []byte, s uint64, get func([]byte) ([]byte, error)) {
		v, err := get(k)
		obs := "None"
		if err == nil {
			if len(v) > 1024 {
				return
			}
			obs = "(Some " + vlib.CoqHex(v) + ")"
			st.Found++
		} else if err != leveldb.ErrNotFound {
			return
		}
		qs = append(qs, fmt.Sprintf("(%s, %d, %s)", vlib.CoqHex(k), s, obs))
	}
	nk := len(r.Prog.Pool)
	for i := 0; i < 8 && i < nk; i++ {
		k := r.Prog.Pool[rnd.Intn(nk)]
		ask(k, seq, func(k []byte) ([]byte, error) { return r.DB.Get(k, nil) })
	}
	ask([]byte("\x02absent"), seq, func(k []byte) ([]byte, error) { return r.DB.Get(k, nil) })
	// the table boundaries (level search, imin/imax tests): the boundary user keys and their neighbours at the
	// current sequence number, and the boundary entries themselves probed at their own sequence number and
	// one below (DB.get at an arbitrary sequence number through the verif export)
	nb := 0
	for _, t := range v1 {
		if nb >= 6 {
			break
		}
		for _, ik := range [][]byte{t.Imin, t.Imax} {
			if len(ik) >= 8 && rnd.Chance(1, 2) {
				uk := append([]byte(nil), ik[:len(ik)-8]...)
				es := binary.LittleEndian.Uint64(ik[len(ik)-8:]) >> 8
				ask(uk, seq, func(k []byte) ([]byte, error) { return r.DB.Get(k, nil) })
				ask(append(append([]byte(nil), uk...), 0), seq, func(k []byte) ([]byte, error) { return r.DB.Get(k, nil) })
				ask(uk, es, func(k []byte) ([]byte, error) { return leveldb.VerifGetAt(r.DB, k, es) })
				if es > 0 {
					ask(uk, es-1, func(k []byte) ([]byte, error) { return leveldb.VerifGetAt(r.DB, k, es-1) })
				}
				nb++
			}
		}
	}
	for _, s := range r.Snaps {
		for i := 0; i < 3 && i < nk; i++ {
			k := r.Prog.Pool[rnd.Intn(nk)]
			ask(k, s.seq, func(k []byte) ([]byte, error) { return s.snap.Get(k, nil) })
		}
	}
	// the version must still be the captured one (no compaction finished while the reads ran)
	v3 := leveldb.VerifDumpVersion(r.DB)
	if len(v3) != len(v1) {
		return
	}
	for i := range v1 {
		if v1[i].Num != v3[i].Num || v1[i].Level != v3[i].Level {
			return
		}
	}
	verify, fname, ri := leveldb.VerifReadSetup(r.DB)
	fn := "None"
	if fname != "" {
		fn = "(Some " + vlib.CoqHex([]byte(fname)) + ")"
		st.Filter = true
	}
	cs = fmt.Sprintf("KBytes %d %d %s %s %d %s %s [%s] [%s]", r.Prog.Cfg.CmpID, ri, vlib.CoqBool(verify), fn, r.Prog.Cfg.FilterBits,
		coqMemDump(live), coqMemDump(frozen), strings.Join(lv, "; "), strings.Join(qs, "; "))
	st.Tables, st.Levels, st.Bytes, st.Queries, st.Frozen = len(v1), nl, total, len(qs), frozen != nil
	ok = true
	return
}
