package dbh

// Legal-but-extreme points of the option lattice (added by the options part of C09; see
// coq/theories/Props/C09O.v).  Every value produced here is one the relation theorems show the getters of
// leveldb/opt map to a safe value on the repaired tree, and that C09's option scenarios exercise on the real
// DB in every run.  ExtremeCfg is a SEPARATE generator: RandomCfg and the draws of existing seeds are untouched;
// a harness adopts these points by calling ExtremeCfg itself.

import (
	"math"

	"verifharness/lib/vlib"
)

// ExtremePoint names one extreme value of one field of Cfg.
type ExtremePoint struct {
	Name  string
	Apply func(*Cfg)
}

// ExtremePoints lists the points (each safe on its own and in combination with any RandomCfg point):
//
//	restart interval MaxInt32        opt_restart_interval_pos_holds: only >= 1 matters (one restart point per block)
//	block size 1                     opt_block_size_pos_holds: every entry its own block
//	filter base 1 / 63 / 64 / 1000   opt_filter_base_holds: the getter bounds the shift count by 63
//	iterator sampling 1 / MaxInt     opt_sampling_holds: 2*rate cannot wrap
//	L0 trigger 16                    opt_l0_pause_ge_trigger_holds: above the default pause trigger 12
//	table multiplier 0.5             opt_table_size_nonneg_holds: table sizes shrink to 0 with the level, never negative
//	table size 1                     one table per user key in every compaction output
//	max manifest 1, open files 1, block cache 1 byte
var ExtremePoints = []ExtremePoint{
	{"restart-interval-maxint32", func(c *Cfg) { c.RestartInterval = math.MaxInt32 }},
	{"block-size-1", func(c *Cfg) { c.BlockSize = 1 }},
	{"filter-base-1", func(c *Cfg) { c.FilterBaseLg = 1; ensureFilter(c) }},
	{"filter-base-63", func(c *Cfg) { c.FilterBaseLg = 63; ensureFilter(c) }},
	{"filter-base-64", func(c *Cfg) { c.FilterBaseLg = 64; ensureFilter(c) }},
	{"filter-base-1000", func(c *Cfg) { c.FilterBaseLg = 1000; ensureFilter(c) }},
	{"iter-sampling-1", func(c *Cfg) { c.IterSampling = 1; c.DisableSeeks = false }},
	{"iter-sampling-maxint", func(c *Cfg) { c.IterSampling = int(^uint(0) >> 1); c.DisableSeeks = false }},
	{"l0-trigger-16", func(c *Cfg) { c.L0Trigger = 16 }},
	{"table-mult-half", func(c *Cfg) { c.TableMul = 0.5 }},
	{"table-size-1", func(c *Cfg) { c.TableSize = 1 }},
	{"max-manifest-1", func(c *Cfg) { c.MaxManifest = 1 }},
	{"open-files-1", func(c *Cfg) { c.OpenFiles = 1 }},
	{"block-cache-1", func(c *Cfg) { c.BlockCache = 1 }},
}

func ensureFilter(c *Cfg) {
	if c.FilterBits == 0 {
		c.FilterBits = 10
	}
}

// ExtremeCfg draws a RandomCfg-like point (from its own draws of r) and moves one to three fields to an extreme
// point; it returns the names of the points applied.
func ExtremeCfg(r *vlib.RNG) (Cfg, []string) {
	c := RandomCfg(r)
	n := 1 + r.Pick(3, 2, 1)
	var names []string
	for i := 0; i < n; i++ {
		p := ExtremePoints[r.Intn(len(ExtremePoints))]
		p.Apply(&c)
		names = append(names, p.Name)
	}
	return c, names
}
