package dbh

import (
	"fmt"
	"strings"
	"sync"
	"time"

	"verifharness/lib/vlib"
)

// MainCfg configures the shared "run many DB programs" driver used by the DB-level property commands.
type MainCfg struct {
	Property   string
	Rule       string
	Header     string // Coq header of the case files
	QuickProgs int
	QuickOps   int
	ThorProgs  int
	ThorOps    int
	Weights    Weights
	CheckEvery int
	CheckWf    bool
	// KPrefixes selects which correspondence cases this property keeps ("KGet", "KCompact", "KWf").
	KPrefixes []string
	KCapQuick int
	KCapThor  int
	KPerRun   int
	// NonTrivial decides from the run statistics whether the case counts as non-trivial.
	NonTrivial func(stats map[string]int) bool
	// TweakCfg lets a property bias the option point (e.g. force snapshots, small manifests).
	TweakCfg func(r *vlib.RNG, c *Cfg)
	// Extra is called after each run (under no lock) for property-specific checks; it may return a failure text.
	Extra func(p *Program, rr RunResult, rn *Runner) string
	// ClassCmp: every fifth job (ClassJob) runs under the non-injective comparer (vlib.CaseFold, id 4) with a
	// key pool holding several spellings per user key and the bloom filter off.
	ClassCmp bool
	// Directed may supply a specially shaped program for job i (nil = use the random generator).
	Directed func(r *vlib.RNG, i int) *Program
	// ReplayOther (optional) is tried first on a replay file: it returns true when the file holds one of the property's own
	// cases that are not programs (it has then re-run it and recorded the outcome in res).
	ReplayOther func(path string, res *vlib.Result) bool
	// Post (optional) runs after all programs, before the case files are written: directed scenario families that are not
	// programs of this driver.
	Post func(a vlib.Args, res *vlib.Result)
}

// Main runs the driver: corpus/replay handling, parallel program runs, shrinking, K-case files, result.
func Main(mc MainCfg) {
	a := vlib.ParseArgs()
	res := vlib.NewResult(mc.Property, a.Out, mc.Rule)
	defer res.Write()
	hooksFor := func(kr *vlib.RNG) Hooks {
		return Hooks{CheckEvery: mc.CheckEvery, AfterOp: func(rn *Runner, i int, op *Op) {
			if kr != nil && (i%29 == 5 || op.Kind == OpWaitIdle) {
				rn.DumpKGet(kr, 300)
			}
		}}
	}
	plainHooks := Hooks{CheckEvery: 1}
	if a.Replay != "" {
		if mc.ReplayOther != nil && mc.ReplayOther(a.Replay, res) {
			return
		}
		p, err := LoadProgram(a.Replay)
		if err != nil {
			fmt.Println("cannot load replay:", err)
			return
		}
		for i := 0; i < 3; i++ {
			rr, rn := RunWith(p, plainHooks, mc.CheckWf, false, nil)
			res.Eval(fmt.Sprintf("replay%d", i), true)
			d := Describe(rr)
			if d == "" && mc.Extra != nil {
				d = mc.Extra(p, rr, rn)
			}
			if d != "" {
				fmt.Println("replay fails:", d)
				res.Violate(d, p)
				return
			}
		}
		fmt.Println("replay passes")
		return
	}
	nprog, nops, kcap := mc.QuickProgs, mc.QuickOps, mc.KCapQuick
	if a.Thorough() {
		nprog, nops, kcap = mc.ThorProgs, mc.ThorOps, mc.KCapThor
	}
	if strings.Contains(a.Extra, "search") && !a.Thorough() {
		nprog *= 4
	}
	root := vlib.NewRNG(a.Seed)
	type job struct {
		i int
		r *vlib.RNG
	}
	jobs := make(chan job)
	var kmu sync.Mutex
	var kcases []string
	var wg sync.WaitGroup
	for w := 0; w < 16; w++ {
		wg.Add(1)
		go func() {
			defer wg.Done()
			for j := range jobs {
				r := j.r
				cfg := RandomCfg(r)
				if mc.TweakCfg != nil {
					mc.TweakCfg(r, &cfg)
				}
				pool := GenPool(r, r.Range(8, 60), r.Chance(1, 8))
				classJob := mc.ClassCmp && ClassJob(j.i)
				if classJob {
					// non-injective comparer (cmpx.go): several spellings per user key, oracle keyed by class
					UseClassCmp(&cfg)
					pool = SpellPool(r, pool)
				}
				p := GenProgram(r, cfg, pool, r.Range(nops/3, nops), mc.Weights)
				if mc.Directed != nil {
					if dp := mc.Directed(r, j.i); dp != nil {
						p, cfg = dp, dp.Cfg
						classJob = false
						res.Count("directed_programs", 1)
					}
				}
				if classJob {
					res.Count("programs_casefold_comparer", 1)
					cl, multi := ClassStats(cfg.Options().Comparer, p.Pool)
					res.Count("casefold_classes", cl)
					res.Count("casefold_classes_with_several_spellings", multi)
				}
				p.Seed = a.Seed
				collect := len(mc.KPrefixes) > 0 && j.i%2 == 0
				var kr *vlib.RNG
				if collect {
					kr = r.Fork()
				}
				rr, rn := RunWith(p, hooksFor(kr), mc.CheckWf, false, func(rn *Runner) {
					rn.CollectK = collect
					if mc.KPerRun > 0 {
						rn.KCap = mc.KPerRun
					}
				})
				if collect {
					kmu.Lock()
					for _, kc := range rn.KCases {
						if len(kcases) >= kcap || len(kc) > 60000 {
							continue
						}
						for _, pre := range mc.KPrefixes {
							if strings.HasPrefix(kc, pre+" ") {
								kcases = append(kcases, kc)
								break
							}
						}
					}
					kmu.Unlock()
				}
				for k, v := range rr.Stats {
					if k == "max_levels" || k == "max_live_snapshots" {
						res.Count("runs_with_"+k+fmt.Sprintf("_%d", v), 1)
					} else {
						res.Count(k, v)
					}
				}
				res.Eval(fmt.Sprintf("%d", j.i), mc.NonTrivial(rr.Stats))
				if j.i < 2 {
					n := 4
					if len(p.Ops) < n {
						n = len(p.Ops)
					}
					res.Sample(map[string]interface{}{"cfg": cfg.String(), "ops": len(p.Ops), "first_ops": p.Ops[:n], "stats": rr.Stats})
				}
				d := Describe(rr)
				if d == "" && mc.Extra != nil {
					d = mc.Extra(p, rr, rn)
				}
				if d != "" {
					res.Count("runs_failed", 1)
				}
				if d != "" && res.NViolations() < 6 {
					q, d2 := p, ""
					if mc.Extra == nil {
						q, d2 = ShrinkAndDescribe(p, plainHooks, mc.CheckWf, 20*time.Second)
					}
					if d2 != "" {
						res.Violate(d2, q)
					} else {
						res.Violate(d+" ["+cfg.String()+"] (not shrunk)", p)
					}
				}
			}
		}()
	}
	for i := 0; i < nprog; i++ {
		jobs <- job{i, root.Fork()}
	}
	close(jobs)
	wg.Wait()
	if mc.Post != nil {
		mc.Post(a, res)
	}
	res.WriteCases(mc.Header, "lsmcase", "mismatches", kcases, 16)
}
