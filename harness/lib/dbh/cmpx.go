package dbh

// Support for NON-INJECTIVE comparers (vlib.CaseFold, id 4): byte-different keys that compare equal are ONE user
// key.  What the harness specifies for such a comparer:
//
//   - the oracle holds at most one pair per equivalence class; a Put/Delete/batch record of any spelling of a class
//     replaces/removes the class's pair (Put("KEY") after Put("Key") overwrites it, Delete("kEy") removes it);
//   - Get/Has of ANY spelling of a class answers for the class;
//   - the KEY BYTES shown for a class by an iterator (DB, snapshot, transaction; forward, backward, after Seek) are
//     the bytes of the newest visible Put of the class — the spelling the last visible writer used (dbIter shows
//     the user key of the first, i.e. newest, visible entry of the class in internal-key order; going backward it
//     overwrites the key with every visible non-deleted entry of the class, ending on the newest one); a compaction
//     keeps exactly that entry, so the shown spelling is layout-independent;
//   - range bounds select classes (a bound compares through the comparer).
//
// The Oracle stays a Go map keyed by the STORED SPELLING, with the invariant "at most one spelling per class"; the
// class of a key is found by a direct hit or, for a non-injective comparer, by a scan with Compare == 0.  For the
// injective comparers every function below is the plain map operation.

import (
	"github.com/syndtr/goleveldb/leveldb/comparer"
	"verifharness/lib/vlib"
)

// Find returns the pair of k's class: the stored spelling, the value, and whether the class is present.
func (o Oracle) Find(cmp comparer.Comparer, k []byte) (spelling string, v []byte, ok bool) {
	if v, ok = o[string(k)]; ok {
		return string(k), v, true
	}
	if cmp == nil || !vlib.NonInjective(cmp) {
		return "", nil, false
	}
	for s, v := range o {
		if cmp.Compare([]byte(s), k) == 0 {
			return s, v, true
		}
	}
	return "", nil, false
}

// Put makes (k, v) the pair of k's class: any other spelling of the class is replaced.
func (o Oracle) Put(cmp comparer.Comparer, k, v []byte) {
	if s, _, ok := o.Find(cmp, k); ok && s != string(k) {
		delete(o, s)
	}
	o[string(k)] = append([]byte{}, v...)
}

// Del removes the pair of k's class, whatever its spelling.
func (o Oracle) Del(cmp comparer.Comparer, k []byte) {
	if s, _, ok := o.Find(cmp, k); ok {
		delete(o, s)
	}
}

// Apply applies batch records in order.
func (o Oracle) Apply(cmp comparer.Comparer, recs []Rec) {
	for _, rec := range recs {
		if rec.Del {
			o.Del(cmp, rec.K)
		} else {
			o.Put(cmp, rec.K, rec.V)
		}
	}
}

// ClassJob tells whether job i of a DB-level harness runs under the non-injective comparer: one job in five.
// The choice depends on the job index only, so the random draws of every other job are what they were.
func ClassJob(i int) bool { return i%5 == 3 }

// UseClassCmp moves the option point to the non-injective comparer.  The bloom filter is switched off: the filter
// hashes key BYTES, so a filter built over "Key" answers "absent" for "KEY" (known finding
// casefold-comparer-with-bloom-filter, known_findings_C01.txt).
func UseClassCmp(c *Cfg) {
	c.CmpID = vlib.CmpCaseFold
	c.FilterBits = 0
}

func flipCase(r *vlib.RNG, k []byte) ([]byte, bool) {
	out := append([]byte{}, k...)
	changed := false
	for i, ch := range out {
		isLower, isUpper := ch >= 'a' && ch <= 'z', ch >= 'A' && ch <= 'Z'
		if (isLower || isUpper) && r.Bool() {
			out[i] = ch ^ 0x20
			changed = true
		}
	}
	return out, changed
}

// SpellPool rewrites a key pool for the case-insensitive comparer: about half of the keys are replaced by other
// spellings of keys that stay (so that most classes with letters occur with 2..4 spellings), keys without any
// letter get a letter-bearing sibling now and then, and three spellings of "key" are always present.
func SpellPool(r *vlib.RNG, pool [][]byte) [][]byte {
	seen := map[string]bool{}
	var out [][]byte
	add := func(k []byte) bool {
		if seen[string(k)] {
			return false
		}
		seen[string(k)] = true
		out = append(out, k)
		return true
	}
	n := len(pool)
	for _, k := range [][]byte{[]byte("Key"), []byte("KEY"), []byte("key")} {
		add(k)
	}
	for _, k := range pool {
		if len(out) >= n && len(out) >= 6 {
			break
		}
		switch r.Pick(3, 4, 1) {
		case 0:
			add(k)
		case 1: // another spelling of a key already in the pool (or of k itself, which then joins too)
			base := out[r.Intn(len(out))]
			if r.Chance(1, 3) {
				base = k
				add(k)
			}
			for try := 0; try < 4; try++ {
				if v, ch := flipCase(r, base); ch && add(v) {
					break
				}
			}
		case 2: // letters around a key without letters
			v := append(append([]byte{"aAbB"[r.Intn(4)]}, k...), "zZyY"[r.Intn(4)])
			add(v)
		}
	}
	for len(out) < 6 {
		add(append([]byte("k"), byte('A'+r.Intn(26)), byte('a'+r.Intn(26))))
	}
	return out
}

// ClassStats reports how many classes of the pool occur with more than one spelling (for the distribution).
func ClassStats(cmp comparer.Comparer, pool []HexBytes) (classes, multi int) {
	m := map[string]int{}
	for _, k := range pool {
		m[string(vlib.CanonKey(cmp, k))]++
	}
	for _, c := range m {
		if c > 1 {
			multi++
		}
	}
	return len(m), multi
}
