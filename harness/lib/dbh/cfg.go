// Package dbh is the DB-level harness library: layout-forcing option points, program generation,
// execution against the real DB over the checker-owned storage, and the map oracle.
package dbh

import (
	"fmt"

	"github.com/syndtr/goleveldb/leveldb/cache"
	"github.com/syndtr/goleveldb/leveldb/filter"
	"github.com/syndtr/goleveldb/leveldb/opt"
	"verifharness/lib/vlib"
)

// Cfg is one point of the option lattice (DESIGN.md §3.6). Zero values mean "library default".
type Cfg struct {
	WriteBuffer     int     `json:"wb"`
	TableSize       int     `json:"ts"`
	TotalSize       int     `json:"tot"`
	L0Trigger       int     `json:"l0"`
	BlockSize       int     `json:"bs"`
	RestartInterval int     `json:"ri"`
	Snappy          bool    `json:"snappy"`
	FilterBits      int     `json:"fbits"`  // 0 = no filter
	FilterBaseLg    int     `json:"fbase"`  // 0 = default
	BlockCache      int     `json:"bcache"` // -1 = off, 0 = default, n = capacity bytes
	NoBufferPool    bool    `json:"nopool"`
	OpenFiles       int     `json:"ofiles"` // 0 = default
	DisableSeeks    bool    `json:"noseeks"`
	IterSampling    int     `json:"isamp"` // 0 = default
	NoWriteMerge    bool    `json:"nomerge"`
	NoLargeBatchTxn bool    `json:"nolbt"`
	MaxManifest     int64   `json:"maxman"` // 0 = default
	NoSync          bool    `json:"nosync"`
	CmpID           int     `json:"cmp"`
	TableMul        float64 `json:"tmul,omitempty"`
}

func (c Cfg) String() string {
	return fmt.Sprintf("wb=%d ts=%d tot=%d l0=%d bs=%d ri=%d snappy=%v fbits=%d fbase=%d bcache=%d nopool=%v ofiles=%d noseeks=%v isamp=%d nomerge=%v nolbt=%v maxman=%d nosync=%v cmp=%d",
		c.WriteBuffer, c.TableSize, c.TotalSize, c.L0Trigger, c.BlockSize, c.RestartInterval, c.Snappy, c.FilterBits, c.FilterBaseLg, c.BlockCache,
		c.NoBufferPool, c.OpenFiles, c.DisableSeeks, c.IterSampling, c.NoWriteMerge, c.NoLargeBatchTxn, c.MaxManifest, c.NoSync, c.CmpID)
}

// Options builds the opt.Options of this point.
func (c Cfg) Options() *opt.Options {
	o := &opt.Options{
		WriteBuffer:                   c.WriteBuffer,
		CompactionTableSize:           c.TableSize,
		CompactionTotalSize:           c.TotalSize,
		CompactionL0Trigger:           c.L0Trigger,
		BlockSize:                     c.BlockSize,
		BlockRestartInterval:          c.RestartInterval,
		DisableBufferPool:             c.NoBufferPool,
		OpenFilesCacheCapacity:        c.OpenFiles,
		DisableSeeksCompaction:        c.DisableSeeks,
		IteratorSamplingRate:          c.IterSampling,
		NoWriteMerge:                  c.NoWriteMerge,
		DisableLargeBatchTransaction:  c.NoLargeBatchTxn,
		MaxManifestFileSize:           c.MaxManifest,
		NoSync:                        c.NoSync,
		Comparer:                      vlib.ComparerByID(c.CmpID),
		DisableCompactionBackoff:      true,
		WriteL0PauseTrigger:           0,
		WriteL0SlowdownTrigger:        0,
		CompactionTableSizeMultiplier: c.TableMul,
	}
	if c.Snappy {
		o.Compression = opt.SnappyCompression
	} else {
		o.Compression = opt.NoCompression
	}
	if c.FilterBits > 0 {
		o.Filter = filter.NewBloomFilter(c.FilterBits)
	}
	if c.FilterBaseLg > 0 {
		o.FilterBaseLg = c.FilterBaseLg
	}
	switch {
	case c.BlockCache < 0:
		o.DisableBlockCache = true
	case c.BlockCache > 0:
		o.BlockCacher = opt.LRUCacher
		o.BlockCacheCapacity = c.BlockCache
	}
	_ = cache.NewLRU
	return o
}

func pickInt(r *vlib.RNG, xs ...int) int { return xs[r.Intn(len(xs))] }

// RandomCfg draws a point of the lattice; tiny sizes dominate so that flushes, compactions at several
// levels, block/table boundaries and manifest rotations happen within short programs.
func RandomCfg(r *vlib.RNG) Cfg {
	c := Cfg{
		WriteBuffer:     pickInt(r, 1024, 2048, 4096, 4096, 8192, 65536),
		TableSize:       pickInt(r, 1024, 1024, 2048, 4096, 8192),
		TotalSize:       pickInt(r, 4096, 4096, 8192, 16384, 65536),
		L0Trigger:       pickInt(r, 1, 2, 2, 4),
		BlockSize:       pickInt(r, 64, 256, 256, 1024, 4096),
		RestartInterval: pickInt(r, 1, 2, 3, 16),
		Snappy:          r.Bool(),
		FilterBits:      pickInt(r, 0, 0, 1, 10, 64),
		FilterBaseLg:    pickInt(r, 0, 4, 6, 11),
		BlockCache:      pickInt(r, -1, 0, 0, 4096),
		NoBufferPool:    r.Chance(1, 3),
		OpenFiles:       pickInt(r, 0, 0, 1, 2),
		DisableSeeks:    r.Chance(1, 3),
		IterSampling:    pickInt(r, 0, 0, 64, 1024),
		NoWriteMerge:    r.Chance(1, 4),
		NoLargeBatchTxn: r.Chance(1, 4),
		MaxManifest:     int64(pickInt(r, 0, 0, 1, 512)),
		NoSync:          r.Chance(1, 4),
		CmpID:           pickInt(r, 0, 0, 1, 2, 3),
	}
	return c
}

// DefaultishCfg is a mild point (used when shrinking towards defaults).
func DefaultishCfg() Cfg {
	return Cfg{WriteBuffer: 4096, TableSize: 2048, TotalSize: 8192, L0Trigger: 2, BlockSize: 256, RestartInterval: 16}
}
