package dbh

import (
	"fmt"
	"hash/fnv"
	"strings"
	"sync/atomic"

	"github.com/syndtr/goleveldb/leveldb"
	"verifharness/lib/vlib"
)

// Digest abbreviates a value for the Coq cases (the L1 model treats values as opaque).
func Digest(v []byte) []byte {
	h := fnv.New64a()
	h.Write(v)
	return h.Sum(nil)
}

func coqEntry(e leveldb.VerifEntry) string {
	return fmt.Sprintf("KE %s %d %d %s", vlib.CoqHex(e.Ukey), e.Seq, e.Kind, vlib.CoqHex(Digest(e.Value)))
}

func coqEntries(es []leveldb.VerifEntry) string {
	items := make([]string, len(es))
	for i, e := range es {
		items[i] = coqEntry(e)
	}
	return "[" + strings.Join(items, "; ") + "]"
}

func coqTable(num int64, es []leveldb.VerifEntry) string {
	return fmt.Sprintf("KT %d %s", num, coqEntries(es))
}

func (r *Runner) coqLevels(ver []leveldb.VerifTable, from int) (string, bool) {
	nl := 0
	for _, t := range ver {
		if t.Level+1 > nl {
			nl = t.Level + 1
		}
	}
	var lv []string
	for l := from; l < nl; l++ {
		var ts []string
		for _, t := range ver {
			if t.Level == l {
				es, ok := r.TableEntries[t.Num]
				if !ok {
					return "", false
				}
				ts = append(ts, coqTable(t.Num, es))
			}
		}
		lv = append(lv, "["+strings.Join(ts, "; ")+"]")
	}
	return "[" + strings.Join(lv, "; ") + "]", true
}

// kOnEdit records correspondence cases for an installed edit; called with r.mu held.
func (r *Runner) kOnEdit(e leveldb.VerifEdit) {
	for _, t := range e.Added {
		if _, ok := r.TableEntries[t.Num]; !ok {
			es, err := e.Read(t)
			if err == nil {
				r.TableEntries[t.Num] = es
			}
		}
	}
	if !r.CollectK {
		return
	}
	pre := r.prevVersion
	r.prevVersion = e.Version
	isMove := len(e.Deleted) == 1 && len(e.Added) == 1 && e.Deleted[0].Num == e.Added[0].Num
	if e.HasMinSeq && !isMove && len(e.Deleted) > 0 && r.nKCompact < r.KCap && pre != nil {
		var dels, outs []string
		total := 0
		ok := true
		inPre := map[int64]bool{}
		for _, t := range pre {
			inPre[t.Num] = true
			total += len(r.TableEntries[t.Num])
		}
		for _, d := range e.Deleted {
			if !inPre[d.Num] {
				ok = false
			}
			dels = append(dels, fmt.Sprintf("%d", d.Num))
		}
		for _, a := range e.Added {
			outs = append(outs, coqTable(a.Num, r.TableEntries[a.Num]))
		}
		prelv, ok2 := r.coqLevels(pre, 0)
		if ok && ok2 && total <= 350 {
			r.KCases = append(r.KCases, fmt.Sprintf("KCompact %d %d %s %d [%s] [%s]", r.Prog.Cfg.CmpID, e.MinSeq, prelv, e.SourceLevel,
				strings.Join(dels, "; "), strings.Join(outs, "; ")))
			r.nKCompact++
			r.Stats["k_compact_cases"]++
			if atomic.LoadInt32(&r.liveSnaps) > 0 {
				r.Stats["k_compact_cases_under_snapshot"]++
			}
		}
	}
	if r.nKWf < r.KCap {
		if lv, ok := r.coqLevels(e.Version, 0); ok && len(lv) < 60000 {
			r.KCases = append(r.KCases, fmt.Sprintf("KWf %d %s", r.Prog.Cfg.CmpID, lv))
			r.nKWf++
		}
	}
}

// DumpKGet captures the current state (buffers first, then the pinned version) and a set of point reads at
// the current sequence number and at every live snapshot's, as one correspondence case.
func (r *Runner) DumpKGet(rnd *vlib.RNG, maxEntries int) {
	if r.DB == nil || r.Txn != nil {
		return
	}
	live, frozen, _ := leveldb.VerifMemEntries(r.DB)
	ver := leveldb.VerifDumpVersion(r.DB)
	seq := leveldb.VerifSeq(r.DB)
	r.mu.Lock()
	lv, ok := r.coqLevels(ver, 0)
	n := len(live) + len(frozen)
	for _, t := range ver {
		n += len(r.TableEntries[t.Num])
	}
	r.mu.Unlock()
	if !ok || n > maxEntries {
		return
	}
	var qs []string
	ask := func(k []byte, s uint64, get func([]byte) ([]byte, error)) {
		v, err := get(k)
		obs := "None"
		if err == nil {
			obs = "(Some " + vlib.CoqHex(Digest(v)) + ")"
		} else if err != leveldb.ErrNotFound {
			return
		}
		qs = append(qs, fmt.Sprintf("(%s, %d, %s)", vlib.CoqHex(k), s, obs))
	}
	nk := len(r.Prog.Pool)
	for i := 0; i < 10 && i < nk; i++ {
		k := r.Prog.Pool[rnd.Intn(nk)]
		ask(k, seq, func(k []byte) ([]byte, error) { return r.DB.Get(k, nil) })
	}
	ask([]byte("\x02absent"), seq, func(k []byte) ([]byte, error) { return r.DB.Get(k, nil) })
	for _, s := range r.Snaps {
		for i := 0; i < 4 && i < nk; i++ {
			k := r.Prog.Pool[rnd.Intn(nk)]
			ask(k, s.seq, func(k []byte) ([]byte, error) { return s.snap.Get(k, nil) })
		}
	}
	c := fmt.Sprintf("KGet %d %s %s [] %s [%s]", r.Prog.Cfg.CmpID, coqEntries(live), coqEntries(frozen), lv, strings.Join(qs, "; "))
	r.mu.Lock()
	r.KCases = append(r.KCases, c)
	r.Stats["k_get_cases"]++
	if len(frozen) > 0 {
		r.Stats["k_get_cases_with_frozen"]++
	}
	r.lastSeqSeen = seq
	r.mu.Unlock()
}
