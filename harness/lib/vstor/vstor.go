// Package vstor is the checker-owned storage: an in-memory storage.Storage that logs every operation with a
// global index, keeps per file the written bytes and the synced length, injects faults at chosen positions,
// and materialises the durable image the storage would have after a crash at any operation index.
package vstor

import (
	"bytes"
	"errors"
	"fmt"
	"io"
	"os"
	"sort"
	"sync"

	"github.com/syndtr/goleveldb/leveldb/storage"
)

// OpKind enumerates the storage operations.
type OpKind int

const (
	OpCreate OpKind = iota
	OpWrite
	OpSync
	OpCloseW
	OpOpen
	OpRead
	OpCloseR
	OpRemove
	OpRename
	OpSetMeta
	OpGetMeta
	OpList
	OpLock
	OpUnlock
	OpClose
	NumOpKinds
)

var opNames = [...]string{"create", "write", "sync", "closew", "open", "read", "closer", "remove", "rename", "setmeta", "getmeta", "list", "lock", "unlock", "close"}

func (k OpKind) String() string { return opNames[k] }

// Mutating reports whether the operation changes stored state (what a read-only DB must never issue).
func (k OpKind) Mutating() bool {
	switch k {
	case OpCreate, OpWrite, OpSync, OpRemove, OpRename, OpSetMeta:
		return true
	}
	return false
}

// Op is one logged storage operation.
type Op struct {
	Idx  int
	Kind OpKind
	Fd   storage.FileDesc
	Fd2  storage.FileDesc // rename target
	Data []byte           // bytes written (OpWrite)
	Off  int64            // read offset
	N    int
	Fail bool // an injected fault made it fail
}

func (o Op) String() string {
	s := fmt.Sprintf("#%d %s %s", o.Idx, o.Kind, o.Fd)
	if o.Kind == OpWrite || o.Kind == OpRead {
		s += fmt.Sprintf(" n=%d", o.N)
	}
	if o.Kind == OpRename {
		s += " -> " + o.Fd2.String()
	}
	if o.Fail {
		s += " FAULT"
	}
	return s
}

// ErrInjected is returned by operations hit by a fault.
var ErrInjected = errors.New("vstor: injected fault")

// Fault describes one injected failure: the K-th (0-based) operation of Kind on files of Type (0 = any)
// fails; Persistent faults keep failing every later matching operation until Heal.
type Fault struct {
	Kind       OpKind
	Type       storage.FileType
	K          int
	Persistent bool
	// PartialWrite: a failing write stores this fraction (per mille) of its bytes before failing.
	PartialPermille int
	seen            int
	Hits            int
}

type file struct {
	data   []byte
	synced int
	// everSynced is false for a file that was created but never synced (it may vanish at a crash under
	// the weak create policy)
	everSynced bool
	removed    bool
}

// Stor implements storage.Storage.
type Stor struct {
	mu      sync.Mutex
	files   map[storage.FileDesc]*file
	meta    storage.FileDesc
	hasMeta bool
	slock   *lock
	closed  bool
	ops     []Op
	keepLog bool // keep full op log with written data (needed for crash images)
	// NoData: keep the op log without the written bytes (enough for counting and ordering, not for images)
	NoData bool
	nops    int
	counts  [NumOpKinds]map[storage.FileType]int
	faults  []*Fault
	// statistics for C07
	ReadAfterRemove int
	OpenMissing     int
	// ReadOnlyAudit: when set, mutating operations are recorded in Mutations (still executed)
	Mutations []Op
	audit     bool
	// base state for storages created as crash images (ImageAt on an image replays ops on top of it)
	base        map[storage.FileDesc]*file
	baseMeta    storage.FileDesc
	baseHasMeta bool
}

type lock struct{ s *Stor }

func (l *lock) Unlock() {
	s := l.s
	s.mu.Lock()
	defer s.mu.Unlock()
	s.logOp(Op{Kind: OpUnlock})
	if s.slock == l {
		s.slock = nil
	}
}

// New returns an empty storage; keepLog keeps written bytes in the op log (needed by ImageAt).
func New(keepLog bool) *Stor {
	s := &Stor{files: map[storage.FileDesc]*file{}, keepLog: keepLog}
	for i := range s.counts {
		s.counts[i] = map[storage.FileType]int{}
	}
	return s
}

func (s *Stor) logOp(o Op) int {
	o.Idx = s.nops
	s.nops++
	s.counts[o.Kind][o.Fd.Type]++
	if s.audit && o.Kind.Mutating() {
		s.Mutations = append(s.Mutations, o)
	}
	if s.keepLog {
		s.ops = append(s.ops, o)
	}
	return o.Idx
}

// fault checks (and consumes) a matching fault; must hold mu.
func (s *Stor) fault(k OpKind, t storage.FileType) *Fault {
	for _, f := range s.faults {
		if f.Kind != k || (f.Type != 0 && f.Type&t == 0) {
			continue
		}
		n := f.seen
		f.seen++
		if n == f.K || (f.Persistent && n > f.K) {
			f.Hits++
			return f
		}
	}
	return nil
}

// AddFault registers a fault; counting of matching operations starts now.
func (s *Stor) AddFault(f *Fault) {
	s.mu.Lock()
	s.faults = append(s.faults, f)
	s.mu.Unlock()
}

// Heal removes all faults.
func (s *Stor) Heal() {
	s.mu.Lock()
	s.faults = nil
	s.mu.Unlock()
}

// SetAudit switches recording of mutating operations on/off and clears the record.
func (s *Stor) SetAudit(on bool) {
	s.mu.Lock()
	s.audit = on
	s.Mutations = nil
	s.mu.Unlock()
}

// AuditMutations returns a copy of the mutating operations seen since SetAudit(true).
func (s *Stor) AuditMutations() []Op {
	s.mu.Lock()
	defer s.mu.Unlock()
	return append([]Op(nil), s.Mutations...)
}

// OpCount is the number of operations logged so far (the index the next operation will get).
func (s *Stor) OpCount() int {
	s.mu.Lock()
	defer s.mu.Unlock()
	return s.nops
}

// Counts returns how many operations of kind k hit files of type t so far.
func (s *Stor) Counts(k OpKind, t storage.FileType) int {
	s.mu.Lock()
	defer s.mu.Unlock()
	return s.counts[k][t]
}

// Ops returns a copy of the op log (keepLog only).
func (s *Stor) Ops() []Op {
	s.mu.Lock()
	defer s.mu.Unlock()
	return append([]Op(nil), s.ops...)
}

// ---- storage.Storage ----

func (s *Stor) Lock() (storage.Locker, error) {
	s.mu.Lock()
	defer s.mu.Unlock()
	s.logOp(Op{Kind: OpLock})
	if s.closed {
		return nil, storage.ErrClosed
	}
	if s.slock != nil {
		return nil, storage.ErrLocked
	}
	s.slock = &lock{s}
	return s.slock, nil
}

func (s *Stor) Locked() bool {
	s.mu.Lock()
	defer s.mu.Unlock()
	return s.slock != nil
}

func (s *Stor) Log(str string) {}

func (s *Stor) SetMeta(fd storage.FileDesc) error {
	if !storage.FileDescOk(fd) {
		return storage.ErrInvalidFile
	}
	s.mu.Lock()
	defer s.mu.Unlock()
	if s.closed {
		return storage.ErrClosed
	}
	o := Op{Kind: OpSetMeta, Fd: fd}
	if s.fault(OpSetMeta, fd.Type) != nil {
		o.Fail = true
		s.logOp(o)
		return ErrInjected
	}
	s.logOp(o)
	s.meta, s.hasMeta = fd, true
	return nil
}

func (s *Stor) GetMeta() (storage.FileDesc, error) {
	s.mu.Lock()
	defer s.mu.Unlock()
	if s.closed {
		return storage.FileDesc{}, storage.ErrClosed
	}
	o := Op{Kind: OpGetMeta}
	if s.fault(OpGetMeta, storage.TypeManifest) != nil {
		o.Fail = true
		s.logOp(o)
		return storage.FileDesc{}, ErrInjected
	}
	s.logOp(o)
	if !s.hasMeta {
		return storage.FileDesc{}, os.ErrNotExist
	}
	return s.meta, nil
}

func (s *Stor) List(ft storage.FileType) ([]storage.FileDesc, error) {
	s.mu.Lock()
	defer s.mu.Unlock()
	if s.closed {
		return nil, storage.ErrClosed
	}
	o := Op{Kind: OpList, Fd: storage.FileDesc{Type: ft}}
	if s.fault(OpList, ft) != nil {
		o.Fail = true
		s.logOp(o)
		return nil, ErrInjected
	}
	s.logOp(o)
	return s.listLocked(ft), nil
}

func (s *Stor) listLocked(ft storage.FileType) []storage.FileDesc {
	var fds []storage.FileDesc
	for fd := range s.files {
		if fd.Type&ft != 0 {
			fds = append(fds, fd)
		}
	}
	sort.Slice(fds, func(i, j int) bool {
		if fds[i].Type != fds[j].Type {
			return fds[i].Type < fds[j].Type
		}
		return fds[i].Num < fds[j].Num
	})
	return fds
}

// ListAll lists files without logging an operation (checker's own view).
func (s *Stor) ListAll() []storage.FileDesc {
	s.mu.Lock()
	defer s.mu.Unlock()
	return s.listLocked(storage.TypeAll)
}

// Meta returns the CURRENT pointer without logging.
func (s *Stor) Meta() (storage.FileDesc, bool) {
	s.mu.Lock()
	defer s.mu.Unlock()
	return s.meta, s.hasMeta
}

// FileBytes returns a copy of a file's content and its synced length, without logging.
func (s *Stor) FileBytes(fd storage.FileDesc) (data []byte, synced int, ok bool) {
	s.mu.Lock()
	defer s.mu.Unlock()
	f, ok := s.files[fd]
	if !ok {
		return nil, 0, false
	}
	return append([]byte(nil), f.data...), f.synced, true
}

// SetFileBytes overwrites (or creates) a file's content, fully synced, without logging (damage injection).
func (s *Stor) SetFileBytes(fd storage.FileDesc, data []byte) {
	s.mu.Lock()
	defer s.mu.Unlock()
	s.files[fd] = &file{data: append([]byte(nil), data...), synced: len(data), everSynced: true}
}

// DeleteFile removes a file without logging (damage injection).
func (s *Stor) DeleteFile(fd storage.FileDesc) {
	s.mu.Lock()
	defer s.mu.Unlock()
	delete(s.files, fd)
}

// ClearMeta removes the CURRENT pointer without logging (damage injection).
func (s *Stor) ClearMeta() {
	s.mu.Lock()
	s.hasMeta = false
	s.meta = storage.FileDesc{}
	s.mu.Unlock()
}

type reader struct {
	s   *Stor
	fd  storage.FileDesc
	f   *file
	r   *bytes.Reader
	cls bool
}

func (r *reader) check(n int, off int64) error {
	s := r.s
	s.mu.Lock()
	defer s.mu.Unlock()
	o := Op{Kind: OpRead, Fd: r.fd, N: n, Off: off}
	if r.f.removed {
		s.ReadAfterRemove++
	}
	if s.fault(OpRead, r.fd.Type) != nil {
		o.Fail = true
		s.logOp(o)
		return ErrInjected
	}
	s.logOp(o)
	return nil
}

func (r *reader) Read(p []byte) (int, error) {
	if r.cls {
		return 0, storage.ErrClosed
	}
	if err := r.check(len(p), -1); err != nil {
		return 0, err
	}
	return r.r.Read(p)
}
func (r *reader) ReadAt(p []byte, off int64) (int, error) {
	if r.cls {
		return 0, storage.ErrClosed
	}
	if err := r.check(len(p), off); err != nil {
		return 0, err
	}
	return r.r.ReadAt(p, off)
}
func (r *reader) Seek(off int64, whence int) (int64, error) {
	if r.cls {
		return 0, storage.ErrClosed
	}
	return r.r.Seek(off, whence)
}
func (r *reader) Close() error {
	if r.cls {
		return storage.ErrClosed
	}
	r.cls = true
	r.s.mu.Lock()
	r.s.logOp(Op{Kind: OpCloseR, Fd: r.fd})
	r.s.mu.Unlock()
	return nil
}

func (s *Stor) Open(fd storage.FileDesc) (storage.Reader, error) {
	if !storage.FileDescOk(fd) {
		return nil, storage.ErrInvalidFile
	}
	s.mu.Lock()
	defer s.mu.Unlock()
	if s.closed {
		return nil, storage.ErrClosed
	}
	o := Op{Kind: OpOpen, Fd: fd}
	if s.fault(OpOpen, fd.Type) != nil {
		o.Fail = true
		s.logOp(o)
		return nil, ErrInjected
	}
	s.logOp(o)
	f, ok := s.files[fd]
	if !ok {
		s.OpenMissing++
		return nil, os.ErrNotExist
	}
	// the reader sees the bytes present at open time (files are immutable once read in goleveldb)
	return &reader{s: s, fd: fd, f: f, r: bytes.NewReader(append([]byte(nil), f.data...))}, nil
}

type writer struct {
	s   *Stor
	fd  storage.FileDesc
	f   *file
	cls bool
}

func (w *writer) Write(p []byte) (int, error) {
	s := w.s
	s.mu.Lock()
	defer s.mu.Unlock()
	if w.cls {
		return 0, storage.ErrClosed
	}
	o := Op{Kind: OpWrite, Fd: w.fd, N: len(p)}
	if ft := s.fault(OpWrite, w.fd.Type); ft != nil {
		n := len(p) * ft.PartialPermille / 1000
		o.Fail = true
		o.N = n
		if s.keepLog && !s.NoData {
			o.Data = append([]byte(nil), p[:n]...)
		}
		s.logOp(o)
		w.f.data = append(w.f.data, p[:n]...)
		return n, ErrInjected
	}
	if s.keepLog && !s.NoData {
		o.Data = append([]byte(nil), p...)
	}
	s.logOp(o)
	w.f.data = append(w.f.data, p...)
	return len(p), nil
}

func (w *writer) Sync() error {
	s := w.s
	s.mu.Lock()
	defer s.mu.Unlock()
	if w.cls {
		return storage.ErrClosed
	}
	o := Op{Kind: OpSync, Fd: w.fd}
	if s.fault(OpSync, w.fd.Type) != nil {
		o.Fail = true
		s.logOp(o)
		return ErrInjected
	}
	s.logOp(o)
	w.f.synced = len(w.f.data)
	w.f.everSynced = true
	return nil
}

func (w *writer) Close() error {
	s := w.s
	s.mu.Lock()
	defer s.mu.Unlock()
	if w.cls {
		return storage.ErrClosed
	}
	w.cls = true
	o := Op{Kind: OpCloseW, Fd: w.fd}
	if s.fault(OpCloseW, w.fd.Type) != nil {
		o.Fail = true
		s.logOp(o)
		return ErrInjected
	}
	s.logOp(o)
	return nil
}

func (s *Stor) Create(fd storage.FileDesc) (storage.Writer, error) {
	if !storage.FileDescOk(fd) {
		return nil, storage.ErrInvalidFile
	}
	s.mu.Lock()
	defer s.mu.Unlock()
	if s.closed {
		return nil, storage.ErrClosed
	}
	o := Op{Kind: OpCreate, Fd: fd}
	if s.fault(OpCreate, fd.Type) != nil {
		o.Fail = true
		s.logOp(o)
		return nil, ErrInjected
	}
	s.logOp(o)
	f := &file{}
	if old, ok := s.files[fd]; ok {
		old.removed = true
	}
	s.files[fd] = f // truncate semantics, as MemStorage and FileStorage (O_TRUNC)
	return &writer{s: s, fd: fd, f: f}, nil
}

func (s *Stor) Remove(fd storage.FileDesc) error {
	if !storage.FileDescOk(fd) {
		return storage.ErrInvalidFile
	}
	s.mu.Lock()
	defer s.mu.Unlock()
	if s.closed {
		return storage.ErrClosed
	}
	o := Op{Kind: OpRemove, Fd: fd}
	if s.fault(OpRemove, fd.Type) != nil {
		o.Fail = true
		s.logOp(o)
		return ErrInjected
	}
	s.logOp(o)
	f, ok := s.files[fd]
	if !ok {
		return os.ErrNotExist
	}
	f.removed = true
	delete(s.files, fd)
	return nil
}

func (s *Stor) Rename(oldfd, newfd storage.FileDesc) error {
	if !storage.FileDescOk(oldfd) || !storage.FileDescOk(newfd) {
		return storage.ErrInvalidFile
	}
	if oldfd == newfd {
		return nil
	}
	s.mu.Lock()
	defer s.mu.Unlock()
	if s.closed {
		return storage.ErrClosed
	}
	o := Op{Kind: OpRename, Fd: oldfd, Fd2: newfd}
	if s.fault(OpRename, oldfd.Type) != nil {
		o.Fail = true
		s.logOp(o)
		return ErrInjected
	}
	s.logOp(o)
	f, ok := s.files[oldfd]
	if !ok {
		return os.ErrNotExist
	}
	if old, ok := s.files[newfd]; ok {
		old.removed = true
	}
	s.files[newfd] = f
	delete(s.files, oldfd)
	return nil
}

func (s *Stor) Close() error {
	s.mu.Lock()
	defer s.mu.Unlock()
	s.logOp(Op{Kind: OpClose})
	// the checker reuses one storage across close/reopen of the DB, so Close is a no-op besides logging;
	// the DB releases its lock itself.
	return nil
}

// ---- crash images ----

// JournalBlock is the block size of journal and manifest files (cut points are biased towards its multiples).
const JournalBlock = 32768

// TailPolicy says what happens at a crash to the unsynced tail of each file.
type TailPolicy int

const (
	TailLost    TailPolicy = iota // unsynced bytes are gone
	TailKept                      // everything written is there
	TailCut                       // cut at a (seeded) arbitrary byte inside the unsynced tail
	TailCutZero                   // cut, then zero bytes up to the written length
	TailCutJunk                   // cut, then garbage bytes up to the written length
	NumTailPolicies
)

func (p TailPolicy) String() string {
	return [...]string{"lost", "kept", "cut", "cut+zeros", "cut+garbage"}[p]
}

// ImageOpts selects the crash semantics.
type ImageOpts struct {
	Policy TailPolicy
	// UnsyncedFilesVanish: a file that was never synced does not exist after the crash (weak create).
	UnsyncedFilesVanish bool
	// Rand yields deterministic choices for cut points / garbage.
	Rand func() uint64
}

// ImageAt replays the first n logged operations (requires keepLog) and returns the storage as it would be
// found after a crash right after operation n-1: per file the synced prefix plus the tail per the policy.
// Namespace operations (create, remove, rename, SetMeta) are atomic and durable in order.
func (s *Stor) ImageAt(n int, io ImageOpts) *Stor {
	s.mu.Lock()
	ops := s.ops
	if n > len(ops) {
		n = len(ops)
	}
	ops = ops[:n]
	base, bm, bh := s.base, s.baseMeta, s.baseHasMeta
	s.mu.Unlock()
	return imageFrom(base, bm, bh, ops, io)
}

// ImageOf computes the crash image of an explicit op-log prefix of a storage that started empty.
func ImageOf(ops []Op, io ImageOpts) *Stor { return imageFrom(nil, storage.FileDesc{}, false, ops, io) }

func imageFrom(base map[storage.FileDesc]*file, baseMeta storage.FileDesc, baseHasMeta bool, ops []Op, io ImageOpts) *Stor {
	img := New(true)
	for fd, f := range base {
		img.files[fd] = &file{data: append([]byte(nil), f.data...), synced: f.synced, everSynced: f.everSynced}
	}
	img.meta, img.hasMeta = baseMeta, baseHasMeta
	for _, o := range ops {
		if o.Fail && o.Kind != OpWrite {
			continue
		}
		switch o.Kind {
		case OpCreate:
			img.files[o.Fd] = &file{}
		case OpWrite:
			if f := img.files[o.Fd]; f != nil {
				f.data = append(f.data, o.Data...)
			}
		case OpSync:
			if f := img.files[o.Fd]; f != nil {
				f.synced = len(f.data)
				f.everSynced = true
			}
		case OpRemove:
			delete(img.files, o.Fd)
		case OpRename:
			if f, ok := img.files[o.Fd]; ok {
				img.files[o.Fd2] = f
				delete(img.files, o.Fd)
			}
		case OpSetMeta:
			img.meta, img.hasMeta = o.Fd, true
		}
	}
	rnd := io.Rand
	if rnd == nil {
		var x uint64 = 88172645463325252
		rnd = func() uint64 { x ^= x << 13; x ^= x >> 7; x ^= x << 17; return x }
	}
	var fds []storage.FileDesc
	for fd := range img.files {
		fds = append(fds, fd)
	}
	sort.Slice(fds, func(i, j int) bool {
		if fds[i].Type != fds[j].Type {
			return fds[i].Type < fds[j].Type
		}
		return fds[i].Num < fds[j].Num
	})
	for _, fd := range fds {
		f := img.files[fd]
		if io.UnsyncedFilesVanish && !f.everSynced {
			delete(img.files, fd)
			continue
		}
		tail := len(f.data) - f.synced
		if tail > 0 {
			switch io.Policy {
			case TailLost:
				f.data = f.data[:f.synced]
			case TailKept:
			case TailCut, TailCutZero, TailCutJunk:
				cut := f.synced + int(rnd()%uint64(tail+1))
				// half of the time prefer a structurally interesting byte: within 8 bytes of a 32 KiB block
				// boundary (journal/manifest chunk headers are 7 bytes) inside the unsynced tail
				if rnd()%2 == 0 {
					lo, hi := f.synced/JournalBlock, len(f.data)/JournalBlock
					if hi > lo {
						b := (lo + 1 + int(rnd()%uint64(hi-lo))) * JournalBlock
						c := b - 8 + int(rnd()%17)
						if c >= f.synced && c <= len(f.data) {
							cut = c
						}
					}
				}
				full := len(f.data)
				f.data = append([]byte(nil), f.data[:cut]...)
				for i := cut; i < full && io.Policy != TailCut; i++ {
					if io.Policy == TailCutZero {
						f.data = append(f.data, 0)
					} else {
						f.data = append(f.data, byte(rnd()))
					}
				}
			}
		}
		f.synced = len(f.data)
		f.everSynced = true
	}
	img.base = map[storage.FileDesc]*file{}
	for fd, f := range img.files {
		img.base[fd] = &file{data: append([]byte(nil), f.data...), synced: f.synced, everSynced: true}
	}
	img.baseMeta, img.baseHasMeta = img.meta, img.hasMeta
	return img
}

// Discard drops every byte this storage holds (files, base image, op log). goleveldb keeps a closed DB (and through it
// its storage) reachable for up to a second (mpoolDrain); a harness that opens hundreds of multi-megabyte crash images per
// second calls Discard after each one so that only an empty shell stays reachable.
func (s *Stor) Discard() {
	s.mu.Lock()
	defer s.mu.Unlock()
	s.files = map[storage.FileDesc]*file{}
	s.base = nil
	s.ops = nil
	s.closed = true
}

// Clone copies the current (not crash) state into a fresh storage: all written bytes kept, no lock, no log.
func (s *Stor) Clone(keepLog bool) *Stor {
	s.mu.Lock()
	defer s.mu.Unlock()
	c := New(keepLog)
	for fd, f := range s.files {
		c.files[fd] = &file{data: append([]byte(nil), f.data...), synced: f.synced, everSynced: f.everSynced}
	}
	c.meta, c.hasMeta = s.meta, s.hasMeta
	return c
}

// TotalBytes sums the sizes of files of the given types.
func (s *Stor) TotalBytes(ft storage.FileType) int {
	s.mu.Lock()
	defer s.mu.Unlock()
	n := 0
	for fd, f := range s.files {
		if fd.Type&ft != 0 {
			n += len(f.data)
		}
	}
	return n
}

var _ storage.Storage = (*Stor)(nil)
var _ io.ReaderAt = (*reader)(nil)
