// Package wl: marker-carrying workloads shared by the crash (C04) and fault (C08) checks.
package wl

import (
	"bytes"
	"fmt"

	"github.com/syndtr/goleveldb/leveldb"
	"verifharness/lib/dbh"
	"verifharness/lib/vlib"
)

// Batch is one issued write (every write carries a unique marker key so its presence can be read off).
type Batch struct {
	ID       int       `json:"id"`
	Recs     []dbh.Rec `json:"recs"`
	Sync     bool      `json:"sync"`
	Txn      bool      `json:"txn,omitempty"`
	StartIdx int       `json:"start_idx"`
	AckIdx   int       `json:"ack_idx"`
	OK       bool      `json:"ok"`
}

// Step of a workload (replayable).
type Step struct {
	Kind  string    `json:"kind"` // write | txn | compact | reopen | idle
	Recs  []dbh.Rec `json:"recs,omitempty"`
	Sync  bool      `json:"sync,omitempty"`
	Parts int       `json:"parts,omitempty"` // txn: number of Write calls the records are split into; cwrite: number of concurrent writers
	Syncs []bool    `json:"syncs,omitempty"` // cwrite: the Sync option of each concurrent writer
}

type Workload struct {
	Seed  uint64  `json:"seed"`
	Cfg   dbh.Cfg `json:"cfg"`
	Steps []Step  `json:"steps"`
}

func Marker(id int) []byte { return []byte(fmt.Sprintf("\x01m%06d", id)) }

func GenWorkload(r *vlib.RNG, nsteps int) *Workload {
	cfg := dbh.RandomCfg(r)
	cfg.MaxManifest = int64([]int{0, 1, 512, 512}[r.Intn(4)])
	cfg.NoSync = false // the NoSync option waives durability altogether; the property is about the sync write option
	if cfg.WriteBuffer > 8192 {
		cfg.WriteBuffer = []int{1024, 2048, 4096}[r.Intn(3)]
	}
	pool := dbh.GenPool(r, r.Range(6, 40), false)
	w := &Workload{Cfg: cfg}
	var tag uint64
	mkrecs := func(n int, big bool) []dbh.Rec {
		var recs []dbh.Rec
		for i := 0; i < n; i++ {
			k := pool[r.Intn(len(pool))]
			tag++
			if r.Chance(1, 5) {
				recs = append(recs, dbh.Rec{Del: true, K: k})
			} else {
				v := dbh.GenValue(r, cfg, k, tag)
				if len(v) > 3000 {
					v = v[:3000]
				}
				if big && len(v) < 200 {
					v = append(v, bytes.Repeat([]byte{'q'}, 300)...)
				}
				recs = append(recs, dbh.Rec{K: k, V: v})
			}
		}
		return recs
	}
	for len(w.Steps) < nsteps {
		switch r.Pick(50, 6, 4, 3, 3, 2) {
		case 0:
			w.Steps = append(w.Steps, Step{Kind: "write", Recs: mkrecs(r.Range(1, 4), false), Sync: r.Chance(1, 2)})
		case 1: // oversized batch
			n := cfg.WriteBuffer/300 + 2
			w.Steps = append(w.Steps, Step{Kind: "write", Recs: mkrecs(n, true), Sync: r.Chance(1, 2)})
		case 2:
			w.Steps = append(w.Steps, Step{Kind: "txn", Recs: mkrecs(r.Range(1, 30), r.Chance(1, 2)), Parts: r.Range(1, 3)})
		case 3:
			w.Steps = append(w.Steps, Step{Kind: "compact"})
		case 4:
			w.Steps = append(w.Steps, Step{Kind: "reopen"})
		case 5:
			w.Steps = append(w.Steps, Step{Kind: "idle"})
		}
	}
	return w
}

func MkBatch(recs []dbh.Rec) *leveldb.Batch {
	b := new(leveldb.Batch)
	for _, rec := range recs {
		if rec.Del {
			b.Delete(rec.K)
		} else {
			b.Put(rec.K, rec.V)
		}
	}
	return b
}

func Scan(db *leveldb.DB) (map[string][]byte, error) {
	m := map[string][]byte{}
	it := db.NewIterator(nil, nil)
	defer it.Release()
	for it.Next() {
		m[string(it.Key())] = append([]byte{}, it.Value()...)
	}
	return m, it.Error()
}

// GenBigJournalWorkload: write buffers of 64-256 KiB so that one journal file spans several 32 KiB blocks, batches of
// many records (5-60 KiB of payload, mostly unsynced) so that journal records are split into first/middle/last chunks
// across block boundaries, an occasional synced write so that the unsynced tail starts at varying offsets.
func GenBigJournalWorkload(r *vlib.RNG, nsteps int) *Workload {
	cfg := dbh.RandomCfg(r)
	cfg.MaxManifest = int64([]int{0, 0, 512}[r.Intn(3)])
	cfg.NoSync = false
	cfg.WriteBuffer = []int{65536, 131072, 262144}[r.Intn(3)]
	pool := dbh.GenPool(r, r.Range(20, 60), false)
	w := &Workload{Cfg: cfg}
	var tag uint64
	mkrecs := func(n int) []dbh.Rec {
		var recs []dbh.Rec
		for i := 0; i < n; i++ {
			k := pool[r.Intn(len(pool))]
			tag++
			if r.Chance(1, 8) {
				recs = append(recs, dbh.Rec{Del: true, K: k})
				continue
			}
			v := dbh.GenValue(r, cfg, k, tag)
			want := r.Range(200, 2500)
			for len(v) < want {
				v = append(v, byte('a'+len(v)%23))
			}
			recs = append(recs, dbh.Rec{K: k, V: v[:want]})
		}
		return recs
	}
	for len(w.Steps) < nsteps {
		switch r.Pick(30, 30, 3, 2, 2) {
		case 0:
			w.Steps = append(w.Steps, Step{Kind: "write", Recs: mkrecs(r.Range(1, 4)), Sync: r.Chance(1, 4)})
		case 1: // a batch of 5-60 KiB: crosses at least one block boundary more often than not
			w.Steps = append(w.Steps, Step{Kind: "write", Recs: mkrecs(r.Range(4, 40)), Sync: r.Chance(1, 6)})
		case 2:
			w.Steps = append(w.Steps, Step{Kind: "txn", Recs: mkrecs(r.Range(1, 20)), Parts: r.Range(1, 3)})
		case 3:
			w.Steps = append(w.Steps, Step{Kind: "reopen"})
		case 4:
			w.Steps = append(w.Steps, Step{Kind: "idle"})
		}
	}
	return w
}
